#!/venv/bin/python
"""import_seed.py <agent> <k> <id> <prop>: copy a sub-agent's confirmed change into /verif/seeded/<id>/
(patch.diff, demo.py with the scratch-worktree path replaced by $SDP_TREE, notes.md, meta.json stub)."""
import json
import os
import re
import shutil
import sys

agent, k, sid, prop = sys.argv[1:5]
src = "/tmp/seed_out/%s/%s" % (agent, k)
dst = "/verif/seeded/%s" % sid
os.makedirs(dst, exist_ok=True)
shutil.copyfile(os.path.join(src, "patch.diff"), os.path.join(dst, "patch.diff"))
shutil.copyfile(os.path.join(src, "notes.md"), os.path.join(dst, "notes.md"))
demo = open(os.path.join(src, "demo.py")).read()
wt = "/tmp/wt/%s" % agent
expr = '__import__("os").environ.get("SDP_TREE", "/repo")'
demo = demo.replace('"%s"' % wt, expr).replace("'%s'" % wt, expr)
ALT = "__import__('os').environ.get('SDP_TREE', '/repo')"
demo = "\n".join(l.replace(expr, ALT) if (expr in l and l.lstrip().startswith('"')) else l for l in demo.split("\n"))
demo = demo.replace("/tmp/seed_out/%s/%s/demo.py" % (agent, k), "/verif/seeded/%s/demo.py" % sid)
demo = demo.replace(wt, "$SDP_TREE")
open(os.path.join(dst, "demo.py"), "w").write(demo)
import py_compile
try:
    py_compile.compile(os.path.join(dst, "demo.py"), doraise=True)
except py_compile.PyCompileError as e:
    print("WARNING: rewritten demo does not compile (path literal inside a quoted string?): %s" % e)
meta_p = os.path.join(dst, "meta.json")
meta = json.load(open(meta_p)) if os.path.exists(meta_p) else {}
meta.update({"id": sid, "property": prop, "origin": "independent sub-agent %s, change %s (given only the property text and a scratch worktree)" % (agent, k),
             "needs": meta.get("needs", ""),
             "how_to_run": "SDP_TREE=<tree with patch.diff applied> /venv/bin/python /verif/seeded/%s/demo.py  (exit 0 = property holds; non-zero = broken); "
                           "/venv/bin/python /verif/tools/seedtool.py verify <scratch worktree> /verif/seeded/%s %s" % (sid, sid, prop)})
json.dump(meta, open(meta_p, "w"), indent=1)
print(dst)
