#!/venv/bin/python
"""Run the registered checks against every seeded change under /verif/seeded (or the ones named).

  run_seeded.py [--only id,id] [--tier quick|thorough] [--budget 50] [--all-props] [--jobs 1]
For each change: scratch git worktree of /repo HEAD (outside /repo and /verif) -> demo passes clean -> apply
patch -> repository tests pass -> demo fails -> check.py <prop> <tier> with VERIF_REPO=<worktree> -> remove the
worktree.  Writes the outcome into seeded/<id>/meta.json ("last_run") and a table to seeded/RESULTS.md."""
import json
import os
import subprocess
import sys
import time
from concurrent.futures import ThreadPoolExecutor

VERIF = os.path.dirname(os.path.dirname(os.path.abspath(__file__)))
PY = "/venv/bin/python"


def one(sid, tier, budget, all_props):
    sd = os.path.join(VERIF, "seeded", sid)
    meta = json.load(open(os.path.join(sd, "meta.json")))
    wt = "/tmp/wt/seedrun-%s" % sid
    subprocess.run(["git", "-C", "/repo", "worktree", "remove", "--force", wt], stdout=subprocess.DEVNULL, stderr=subprocess.DEVNULL)
    os.makedirs("/tmp/wt", exist_ok=True)
    subprocess.run(["git", "-C", "/repo", "worktree", "add", "--detach", wt, "HEAD", "-q"], check=True, stdout=subprocess.DEVNULL, stderr=subprocess.DEVNULL)
    try:
        cmd = [PY, os.path.join(VERIF, "tools", "seedtool.py"), "verify", wt, sd, meta["property"], "--tier", meta.get("tier", tier), "--budget", str(budget)]
        if all_props:
            cmd += ["--all-props", "--other-budget", str(OTHER_BUDGET)]
        if VSEEDS:
            cmd += ["--verif-seeds", VSEEDS]
        r = subprocess.run(cmd, stdout=subprocess.PIPE, stderr=subprocess.STDOUT, text=True)
        s = r.stdout
        out = json.loads(s[s.index("{"):])
    except Exception as e:  # noqa
        out = {"error": repr(e)[:300]}
    finally:
        subprocess.run(["git", "-C", "/repo", "worktree", "remove", "--force", wt], stdout=subprocess.DEVNULL, stderr=subprocess.DEVNULL)
    out.pop("seed_dir", None)
    out["tier"] = meta.get("tier", tier)
    out["budget_s"] = budget
    out["verif_commit"] = subprocess.run(["git", "-C", VERIF, "rev-parse", "--short", "HEAD"], stdout=subprocess.PIPE, text=True).stdout.strip()
    meta["last_run"] = out
    json.dump(meta, open(os.path.join(sd, "meta.json"), "w"), indent=1)
    return sid, meta


OTHER_BUDGET = 30
VSEEDS = ""


def snapshot():
    """Frozen copy of the machinery for this batch (removed at the end)."""
    import shutil
    import tempfile
    root = tempfile.mkdtemp(prefix="verif-snap-", dir="/dev/shm" if os.path.isdir("/dev/shm") else None)
    for d in ("dst", "corpus"):
        shutil.copytree(os.path.join(VERIF, d), os.path.join(root, d), ignore=shutil.ignore_patterns("__pycache__"))
    shutil.copyfile(os.path.join(VERIF, "known_findings.txt"), os.path.join(root, "known_findings.txt"))
    return root


def main():
    a = sys.argv[1:]
    snap = snapshot()
    os.environ["VERIF_ROOT"] = snap
    try:
        _main(a)
    finally:
        import shutil
        shutil.rmtree(snap, ignore_errors=True)


def _main(a):
    only = set(a[a.index("--only") + 1].split(",")) if "--only" in a else None
    tier = a[a.index("--tier") + 1] if "--tier" in a else "quick"
    budget = int(a[a.index("--budget") + 1]) if "--budget" in a else 50
    jobs = int(a[a.index("--jobs") + 1]) if "--jobs" in a else 1
    global VSEEDS
    VSEEDS = a[a.index("--verif-seeds") + 1] if "--verif-seeds" in a else ""
    ids = sorted(d for d in os.listdir(os.path.join(VERIF, "seeded")) if os.path.exists(os.path.join(VERIF, "seeded", d, "meta.json")))
    ids = [i for i in ids if only is None or i in only]
    t0 = time.time()
    with ThreadPoolExecutor(max_workers=jobs) as ex:
        for sid, meta in ex.map(lambda i: one(i, tier, budget, "--all-props" in a), ids):
            lr = meta["last_run"]
            c = (lr.get("checks") or {}).get(meta["property"], {})
            rate = lr.get("rate")
            rtxt = (" rate=%d/%d" % (sum(1 for v in rate.values() if v["rc"] == 1), len(rate))) if rate else ""
            if meta.get("expect") == "quiet":
                rcs = dict((k, v.get("rc")) for k, v in (lr.get("checks") or {}).items())
                print("%-48s BENIGN tests=%s demo(clean/patched)=%s/%s checks=%s %s" % (sid, lr.get("tests_rc"), lr.get("demo_clean_rc"), lr.get("demo_patched_rc"), rcs,
                                                                                     "ALL QUIET" if all(v == 0 for v in rcs.values()) else "ALARM/ERROR"), flush=True)
                continue
            print("%-48s confirmed=%s caught=%s rc=%s%s %s" % (sid, lr.get("confirmed"), lr.get("caught"), c.get("rc"), rtxt, c.get("first", "")[:110]), flush=True)
    write_table()
    print("done in %.0fs" % (time.time() - t0))


def write_table():
    rows = []
    for sid in sorted(os.listdir(os.path.join(VERIF, "seeded"))):
        p = os.path.join(VERIF, "seeded", sid, "meta.json")
        if not os.path.exists(p):
            continue
        m = json.load(open(p))
        lr = m.get("last_run") or {}
        c = (lr.get("checks") or {}).get(m["property"], {})
        others = ", ".join("%s:%s" % (k, "caught" if v.get("rc") == 1 else ("quiet" if v.get("rc") == 0 else "rc%s" % v.get("rc")))
                           for k, v in sorted((lr.get("checks") or {}).items()) if k != m["property"])
        rows.append("| %s | %s | %s | %s | %s | %s | %s |" % (sid, m["property"], m.get("needs", "")[:160].replace("|", "/"), "yes" if lr.get("confirmed") else "NO",
                                                         lr.get("tier", ""), ("**caught** " + c.get("first", "").split(" seed=")[0].replace("oracle=", "")) if lr.get("caught") else "missed (rc=%s)" % c.get("rc"), others))
    with open(os.path.join(VERIF, "seeded", "RESULTS.md"), "w") as f:
        f.write("# Seeded changes and what the registered checks say about them\n\n"
                "Produced by `tools/run_seeded.py` (each change applied to a scratch worktree of /repo HEAD; never committed to /repo).\n"
                "confirmed = demo passes on the clean tree, repository tests pass with the patch, demo fails with the patch.\n\n"
                "| id | property | needs | confirmed | tier | own check | other checks |\n|---|---|---|---|---|---|---|\n" + "\n".join(rows) + "\n")


if __name__ == "__main__":
    main()
