#!/venv/bin/python
"""Confirm a seeded change and run the checks against it.

  seedtool.py verify <worktree> <seed_dir> <prop> [--tier quick] [--budget 40] [--all-props]
      clean tree: demo must exit 0; apply patch.diff; repository tests must pass; demo must exit non-zero;
      run check.py <prop> <tier> with VERIF_REPO=<worktree>; revert.  Prints one JSON line.
The worktree is a scratch `git worktree` of /repo outside /repo and /verif."""
import json
import os
import subprocess
import sys
import time

PY = "/venv/bin/python"
# VERIF_ROOT: run the checks from a frozen copy of /verif (dst/, corpus/, known_findings.txt) so that editing /verif
# while a long batch runs cannot disturb it
VERIF = os.environ.get("VERIF_ROOT") or os.path.dirname(os.path.dirname(os.path.abspath(__file__)))


def sh(cmd, cwd=None, env=None, timeout=3600):
    r = subprocess.run(cmd, cwd=cwd, env=env, stdout=subprocess.PIPE, stderr=subprocess.STDOUT, text=True, timeout=timeout)
    return r.returncode, r.stdout


def main():
    a = sys.argv[1:]
    assert a[0] == "verify"
    wt, sd, prop = a[1], a[2], a[3]
    tier = a[a.index("--tier") + 1] if "--tier" in a else "quick"
    budget = a[a.index("--budget") + 1] if "--budget" in a else "40"
    props = [prop] + ([p for p in ("C14", "C15", "C19", "C20") if p != prop] if "--all-props" in a else [])
    other_budget = a[a.index("--other-budget") + 1] if "--other-budget" in a else budget
    out = {"seed_dir": sd, "prop": prop}
    env = dict(os.environ, SDP_TREE=wt, PYTHONDONTWRITEBYTECODE="1")
    env.pop("PYTHONPATH", None)
    sh(["git", "-C", wt, "checkout", "--", "."])
    sh(["git", "-C", wt, "clean", "-fdq"])
    demo = os.path.join(sd, "demo.py")
    rc, o = sh([PY, demo], cwd=wt, env=env, timeout=900)
    out["demo_clean_rc"] = rc
    rc, o = sh(["git", "-C", wt, "apply", os.path.join(sd, "patch.diff")])
    out["apply_rc"] = rc
    if rc != 0:
        out["apply_out"] = o[-500:]
        print(json.dumps(out))
        return 1
    try:
        rc, o = sh([PY, "-m", "pytest", "-q", "-p", "no:cacheprovider", "tests"], cwd=wt, env=env, timeout=1800)
        out["tests_rc"] = rc
        out["tests_tail"] = o.strip().splitlines()[-1] if o.strip() else ""
        rc, o = sh([PY, demo], cwd=wt, env=env, timeout=900)
        out["demo_patched_rc"] = rc
        out["demo_patched_tail"] = o.strip().splitlines()[-3:]
        # tests / demo may have rewritten the table cache of the patched tree: keep what the patch itself ships
        if "parsetab.py" not in open(os.path.join(sd, "patch.diff")).read():
            sh(["git", "-C", wt, "checkout", "--", "simple_ddl_parser/parsetab.py"])
        out["checks"] = {}
        vseeds = a[a.index("--verif-seeds") + 1].split(",") if "--verif-seeds" in a else []
        if vseeds:
            # detection rate of the own check over several VERIF_SEED values (one quick run each)
            out["rate"] = {}
            for vs in vseeds:
                cenv = dict(os.environ, VERIF_REPO=wt, VERIF_BUDGET_S=budget, VERIF_NO_EVIDENCE="1", VERIF_SEED=vs)
                cenv.pop("PYTHONPATH", None)
                t0 = time.time()
                rc, o = sh([PY, os.path.join(VERIF, "dst", "check.py"), prop, tier], cwd=VERIF, env=cenv)
                out["rate"][vs] = {"rc": rc, "violations": len([ln for ln in o.splitlines() if ln.startswith("VIOLATION")]), "wall_s": round(time.time() - t0, 1)}
        for p in props:
            cenv = dict(os.environ, VERIF_REPO=wt, VERIF_BUDGET_S=budget if p == prop else other_budget, VERIF_NO_EVIDENCE="1")
            cenv.pop("PYTHONPATH", None)
            t0 = time.time()
            rc, o = sh([PY, os.path.join(VERIF, "dst", "check.py"), p, tier if p == prop else "quick"], cwd=VERIF, env=cenv)
            vio = [ln for ln in o.splitlines() if ln.startswith("VIOLATION")]
            ora = [ln.strip() for ln in o.splitlines() if ln.strip().startswith("oracle=")]
            out["checks"][p] = {"rc": rc, "violations": len(vio), "first": ora[0][:260] if ora else "",
                                "replay": vio[0].split("replay=")[1] if vio else None,
                                "tail": o.strip().splitlines()[-1][:200] if o.strip() else "", "wall_s": round(time.time() - t0, 1)}
    finally:
        sh(["git", "-C", wt, "checkout", "--", "."])
        sh(["git", "-C", wt, "clean", "-fdq"])
    out["confirmed"] = out["demo_clean_rc"] == 0 and out.get("tests_rc") == 0 and out.get("demo_patched_rc") not in (0, None)
    out["caught"] = out["checks"][prop]["rc"] == 1
    print(json.dumps(out, indent=1))
    return 0


if __name__ == "__main__":
    sys.exit(main())
