#!/venv/bin/python
"""Prints the markdown for DESIGN.md section 13 from seeded/*/meta.json and mutants_report.json."""
import json
import os

V = os.path.dirname(os.path.dirname(os.path.abspath(__file__)))


def main():
    rows = []
    by_prop = {}
    for sid in sorted(os.listdir(os.path.join(V, "seeded"))):
        p = os.path.join(V, "seeded", sid, "meta.json")
        if not os.path.exists(p):
            continue
        m = json.load(open(p))
        lr = m.get("last_run") or {}
        c = (lr.get("checks") or {}).get(m["property"], {})
        own = ("caught: `%s`" % c.get("first", "").split(" seed=")[0].replace("oracle=", "")) if lr.get("caught") else ("**missed** (rc=%s)" % c.get("rc"))
        if m.get("expect") == "quiet":
            own = "quiet, as it must be" if c.get("rc") == 0 else "**FALSE ALARM / error** (rc=%s `%s`)" % (c.get("rc"), c.get("first", "")[:80])
        others = ", ".join("%s %s" % (k, "alarm" if v.get("rc") == 1 else ("quiet" if v.get("rc") == 0 else "rc%s" % v.get("rc")))
                           for k, v in sorted((lr.get("checks") or {}).items()) if k != m["property"])
        rows.append("| `%s` | %s | %s | %s | %s |" % (sid, m["property"], m.get("needs", "").replace("|", "/"), own, others or "-"))
        if m.get("expect") == "quiet":
            st = by_prop.setdefault(m["property"] + " benign", [0, 0])
            st[0] += 1
            st[1] += 1 if all(v.get("rc") == 0 for v in (lr.get("checks") or {"x": {}}).values()) else 0
            continue
        st = by_prop.setdefault(m["property"], [0, 0])
        st[0] += 1
        st[1] += 1 if lr.get("caught") else 0
    print("| seeded change (`/verif/seeded/<id>/`) | property | what it needs in order to manifest | own check (%s tier) | other checks |" % "quick")
    print("|---|---|---|---|---|")
    print("\n".join(rows))
    print()
    print("Totals: " + ", ".join("%s %d/%d %s" % (k, v[1], v[0], "quiet under all four checks" if k.endswith("benign") else "caught") for k, v in sorted(by_prop.items())))
    mp = os.path.join(V, "mutants_report.json")
    if os.path.exists(mp):
        print()
        print("| own mutant (`dst/mutants.py`) | property | needs | tests pass | result |")
        print("|---|---|---|---|---|")
        for r in json.load(open(mp)):
            own = (r.get("checks") or {}).get(r["prop"], {})
            res = ("caught: `%s`" % own.get("first", "").split(" seed=")[0].replace("oracle=", "")) if own.get("rc") == 1 else ("quiet (rc=%s)" % own.get("rc"))
            if r.get("expect") == "quiet":
                res += " - expected quiet (not a breakage)"
            print("| `%s` | %s | %s | %s | %s |" % (r["id"], r["prop"], r["needs"].replace("|", "/"), r.get("tests_pass"), res))


if __name__ == "__main__":
    main()
