#!/venv/bin/python
"""Rewrites the generated parts of DESIGN.md (between the SEEDED-TABLE and SOAK markers)."""
import io
import json
import os
import re
import sys
from contextlib import redirect_stdout

V = os.path.dirname(os.path.dirname(os.path.abspath(__file__)))
sys.path.insert(0, os.path.join(V, "tools"))
import design_tables  # noqa: E402


def main():
    buf = io.StringIO()
    with redirect_stdout(buf):
        design_tables.main()
    s = open(os.path.join(V, "DESIGN.md")).read()
    s = re.sub(r"<!-- SEEDED-TABLE-BEGIN -->.*?<!-- SEEDED-TABLE-END -->",
               lambda m: "<!-- SEEDED-TABLE-BEGIN -->\n" + buf.getvalue() + "<!-- SEEDED-TABLE-END -->", s, flags=re.S)
    soak_p = os.path.join(V, "soaks.json")
    if os.path.exists(soak_p):
        rows = ["| check | tier | wall | evaluations | violations | inconclusive | /verif commit |", "|---|---|---|---|---|---|---|"]
        for r in json.load(open(soak_p)):
            rows.append("| %s | %s | %s | %s | %s | %s | %s |" % (r["check"], r["tier"], r["wall"], r["evaluations"], r["violations"], r.get("inconclusive", 0), r["commit"]))
        s = re.sub(r"<!-- SOAK-BEGIN -->.*?<!-- SOAK-END -->", lambda m: "<!-- SOAK-BEGIN -->\n" + "\n".join(rows) + "\n<!-- SOAK-END -->", s, flags=re.S)
    open(os.path.join(V, "DESIGN.md"), "w").write(s)


if __name__ == "__main__":
    main()
