"""Interposition at seams that already exist in the library (no /repo hook is needed):

  simple_ddl_parser.parser.lex / .yacc      module attributes looked up at call time
  Parser.parse_statement                    a method
  `open` in ddl_parser.py, output/core.py   module-global lookups (falls through to builtins)
  `os` in output/core.py, cli.py            module attributes
  ply.yacc.open                             module-global lookup in PLY (table write)

The proxies call the real thing; they only (a) tell the simulator that a point was reached and
(b) raise an injected error when the simulator's fault plan says so.  Bytes go to a real tmpfs
tree, so makedirs / truncation semantics are the kernel's, not a model's."""
import builtins
import errno
import os as _real_os
import sys


class Hooks:
    """Indirection so worlds can swap callbacks without re-installing the proxies."""

    def __init__(self):
        self.point = lambda label, obj=None: None      # yield / cancel points
        self.io = None                                  # IoPlan or None
        self.crash = lambda site: _real_os._exit(137)   # injected process death (kill -9 / power loss) at a seam
        self.sys = None                                 # callable(name, args) at every os-level call made for library code


HOOKS = Hooks()


class _ModProxy:
    def __init__(self, real, overrides):
        object.__setattr__(self, "_real", real)
        object.__setattr__(self, "_over", overrides)

    def __getattr__(self, name):
        over = object.__getattribute__(self, "_over")
        if name in over:
            return over[name]
        return getattr(object.__getattribute__(self, "_real"), name)

    def __setattr__(self, name, value):
        setattr(object.__getattribute__(self, "_real"), name, value)


_installed = {}


def install_parser_seams():
    """after_lex / after_yacc / before_stmt points.  Idempotent."""
    if "parser" in _installed:
        return
    import simple_ddl_parser.parser as P
    real_lex, real_yacc = P.lex, P.yacc

    def lex_lex(*a, **kw):
        r = real_lex.lex(*a, **kw)
        HOOKS.point("after_lex", kw.get("object"))
        return r

    def yacc_yacc(*a, **kw):
        r = real_yacc.yacc(*a, **kw)
        HOOKS.point("after_yacc", kw.get("module"))
        return r

    P.lex = _ModProxy(real_lex, {"lex": lex_lex})
    P.yacc = _ModProxy(real_yacc, {"yacc": yacc_yacc})
    orig_ps = getattr(P.Parser, "parse_statement", None)
    if orig_ps is not None:
        def parse_statement(self, *a, **kw):
            HOOKS.point("before_stmt", self)
            return orig_ps(self, *a, **kw)
        parse_statement.__wrapped__ = orig_ps
        P.Parser.parse_statement = parse_statement
    _installed["parser"] = (P, real_lex, real_yacc, orig_ps)


# --------------------------------------------------------------------------- file-system seams
class IoPlan:
    """Per-op fault plan + call record.  `faults` is a list of dicts consumed on first match:
         {"site": "input_open", "kind": "EIO"|"ENOENT"|"EACCES"}
         {"site": "dump_open",  "kind": "EACCES"|"ENOSPC"|"EIO"}
         {"site": "dump_write", "kind": "ENOSPC", "after": k}   (k characters written, then error)
         {"site": "makedirs",   "kind": "EACCES"|"ENOSPC"}
         {"site": "listdir",    "perm_seed": n}                 (seeded permutation, not an error)
         {"site": "table_write","kind": "EACCES"}               (ply.yacc.open for writing)"""

    def __init__(self, faults=None):
        self.faults = list(faults or [])
        self.fired = []
        self.calls = []       # (site, path, mode)

    def take(self, site):
        for i, f in enumerate(self.faults):
            if f["site"] == site:
                return self.faults.pop(i)
        return None

    # {"site": "sys", "at": k, "kind": "peer_dump", "target": <abs dir>}: just BEFORE the k-th os-level call this
    # operation makes for library code, a concurrent peer (another sdp process, another thread) dumps another input into
    # the same target directory, creating it with its parents.  Not an error condition: the operation is judged strictly.
    sys_n = 0
    peer_call = None      # world-supplied callable(target) -> list of paths the peer changed ("peer_call" kind)

    def on_sys(self, name, args):
        self.sys_n += 1
        for i, f in enumerate(self.faults):
            if f["site"] == "sys" and f["kind"] not in ("peer_dump", "peer_call"):
                # an I/O error at the os level itself (reaches code that goes through pathlib / os.open as well): raised by
                # the first call at or after the k-th that is not a stat (a failing stat reads as "does not exist", which
                # legitimately sends the library down another path)
                if self.sys_n >= int(f["at"]) and name not in ("stat", "lstat"):
                    self.faults.pop(i)
                    path = str(args[0]) if args else ""
                    self.fired.append({"site": "sys", "kind": f["kind"], "at": self.sys_n, "call": name, "path": path})
                    raise _oserror(f["kind"], path)
                continue
            if f["site"] == "sys" and int(f["at"]) == self.sys_n:
                self.faults.pop(i)
                if f["kind"] == "peer_call" and self.peer_call is not None:
                    # the peer is the library itself: another thread's parse_from_file(dump=True) into the same target runs
                    # from start to end while this operation is parked at its k-th os-level call
                    # ... on a thread of its own (thread ids and thread-local state differ, as they would)
                    io_, HOOKS.io = HOOKS.io, None
                    sys_, HOOKS.sys = HOOKS.sys, None
                    box = []
                    try:
                        import threading
                        th = threading.Thread(target=lambda: box.append(self.peer_call(f["target"])), name="peer")
                        th.start()
                        th.join()
                        changed = box[0] if box else []
                    finally:
                        HOOKS.io = io_
                        HOOKS.sys = sys_
                    self.fired.append({"site": "sys", "kind": "peer_call", "at": self.sys_n, "before_call": name, "changed": changed})
                    return
                created = []
                tgt = f["target"]
                p = tgt
                missing = []
                while p and not _real_os.path.isdir(p):
                    missing.append(p)
                    p = _real_os.path.dirname(p)
                try:
                    _real_os.makedirs(tgt, exist_ok=True)
                    created += [m + "/" for m in missing]
                    peer = _real_os.path.join(tgt, "peer_schema.json")
                    if not _real_os.path.exists(peer):
                        created.append(peer)
                    with builtins.open(peer, "w") as fh:
                        fh.write("[]")
                except OSError:
                    pass        # the target path is occupied by a file (environment fault): the peer fails on its own
                self.fired.append({"site": "sys", "kind": "peer_dump", "at": self.sys_n, "before_call": name, "created": created})
                return


def _oserror(kind, path):
    code = getattr(errno, kind)
    return OSError(code, _real_os.strerror(code) + " [injected]", path)


class _FaultyWriter:
    """Wraps a real text file; raises ENOSPC after `after` characters were written."""

    def __init__(self, f, after, plan, path):
        self._f, self._left, self._plan, self._path = f, after, plan, path

    def write(self, s):
        if self._left is None:
            return self._f.write(s)
        if len(s) <= self._left:
            self._left -= len(s)
            return self._f.write(s)
        self._f.write(s[:self._left])
        self._f.flush()
        self._left = None
        self._plan.fired.append({"site": "dump_write", "kind": "ENOSPC", "path": self._path})
        raise _oserror("ENOSPC", self._path)

    def __getattr__(self, name):
        return getattr(self._f, name)

    def __enter__(self):
        return self

    def __exit__(self, *a):
        self._f.close()
        return False


def _make_open(read_site, write_site):
    def _open(file, mode="r", *a, **kw):
        plan = HOOKS.io
        if write_site == "dump_open" and any(c in mode for c in "wax+"):
            HOOKS.point("io_open")          # I/O is a scheduling point: another thread may run between open and write
        if plan is None:
            return builtins.open(file, mode, *a, **kw)
        writing = any(c in mode for c in "wax+")
        site = write_site if writing else read_site
        plan.calls.append((site, str(file), mode))
        f = plan.take(site)
        if f is not None:
            plan.fired.append({"site": site, "kind": f["kind"], "path": str(file)})
            raise _oserror(f["kind"], str(file))
        fh = builtins.open(file, mode, *a, **kw)
        if writing:
            w = plan.take("dump_write") if write_site == "dump_open" else None
            if w is not None:
                return _FaultyWriter(fh, int(w["after"]), plan, str(file))
        return fh
    return _open


class _OsPathProxy:
    def __init__(self, site_prefix):
        self._p = site_prefix

    def __getattr__(self, name):
        real = getattr(_real_os.path, name)
        if name in ("isdir", "exists", "isfile"):
            def fn(path, _real=real, _name=name):
                plan = HOOKS.io
                if plan is not None:
                    plan.calls.append((self._p + ".path." + _name, str(path), ""))
                return _real(path)
            return fn
        return real


class _OsProxy:
    def __init__(self, site_prefix):
        self._p = site_prefix
        self.path = _OsPathProxy(site_prefix)

    def makedirs(self, name, *a, **kw):
        plan = HOOKS.io
        if plan is not None:
            plan.calls.append(("makedirs", str(name), ""))
            f = plan.take("makedirs")
            if f is not None:
                plan.fired.append({"site": "makedirs", "kind": f["kind"], "path": str(name)})
                raise _oserror(f["kind"], str(name))
        return _real_os.makedirs(name, *a, **kw)

    def replace(self, src, dst, *a, **kw):
        HOOKS.point("io_rename")
        return _real_os.replace(src, dst, *a, **kw)

    def rename(self, src, dst, *a, **kw):
        HOOKS.point("io_rename")
        return _real_os.rename(src, dst, *a, **kw)

    def listdir(self, path="."):
        names = _real_os.listdir(path)
        plan = HOOKS.io
        if plan is not None:
            plan.calls.append(("listdir", str(path), ""))
            names = sorted(names)
            f = plan.take("listdir")
            if f is not None:
                import core
                rng = core.stream(int(f["perm_seed"]), "listdir")
                rng.shuffle(names)
                plan.fired.append({"site": "listdir", "kind": "permuted", "path": str(path)})
        return names

    def __getattr__(self, name):
        return getattr(_real_os, name)


def install_file_seams():
    if "files" in _installed:
        return
    import simple_ddl_parser.ddl_parser as D
    import simple_ddl_parser.output.core as OC
    import simple_ddl_parser.cli as CLI
    D.open = _make_open("input_open", "input_open_w")
    OC.open = _make_open("dump_read", "dump_open")
    if hasattr(OC, "os"):
        OC.os = _OsProxy("dump")
    if hasattr(CLI, "os"):
        CLI.os = _OsProxy("cli")
    _installed["files"] = True


_SYS_NAMES = ("stat", "lstat", "mkdir", "replace", "rename", "unlink", "remove", "rmdir", "listdir", "scandir")
_sys_busy = __import__("threading").local()


def install_syscall_seam(prefix):
    """os.stat / mkdir / replace / ... and io.open themselves (below os.path, os.makedirs and pathlib, which look them up
    at call time): when the call is made on behalf of library code (a frame of `prefix` within eight frames, no logging or
    import machinery in between) HOOKS.sys(name, args) runs first - a scheduling point for the thread scheduler, or the
    instant at which a concurrent peer acts."""
    if "sys" in _installed:
        return
    import io

    def for_library():
        f = sys._getframe(2)
        n = 0
        while f is not None and n < 8:
            fn = f.f_code.co_filename
            if fn.startswith(prefix):
                return True
            if "/logging/" in fn or "importlib" in fn or "linecache" in fn or "traceback" in fn:
                return False
            f = f.f_back
            n += 1
        return False

    def wrap(real, name):
        def w(*a, **kw):
            h = HOOKS.sys
            if h is not None and not getattr(_sys_busy, "v", False) and for_library():
                _sys_busy.v = True
                try:
                    h(name, a)
                finally:
                    _sys_busy.v = False
            return real(*a, **kw)
        w.__name__ = getattr(real, "__name__", name)
        w.__wrapped__ = real
        return w

    for n in _SYS_NAMES:
        setattr(_real_os, n, wrap(getattr(_real_os, n), n))
    opened = wrap(io.open, "open")
    io.open = opened
    builtins.open = opened
    _installed["sys"] = True


def install_table_seam():
    """ply.yacc.open: EACCES on the table write (the sandbox runs as root; chmod cannot)."""
    if "table" in _installed:
        return
    import ply.yacc as Y

    def _open(file, mode="r", *a, **kw):
        plan = HOOKS.io
        if plan is not None and any(c in mode for c in "wax+"):
            plan.calls.append(("table_write", str(file), mode))
            f = plan.take("table_write")
            if f is not None:
                plan.fired.append({"site": "table_write", "kind": f["kind"], "path": str(file)})
                if f["kind"] == "CRASH":
                    HOOKS.crash("table_write")      # dies before the file is opened: the cache file stays as it was
                if f.get("sticky"):
                    plan.faults.append(f)
                raise _oserror(f["kind"], str(file))
        return builtins.open(file, mode, *a, **kw)
    Y.open = _open
    _installed["table"] = True


def silence(disable_logging=True):
    """Log *emission* is the one stubbed library behaviour.  stderr goes to /dev/null everywhere.  In the table-cache
    incarnations logging is also disabled (PLY formats ~3 MB of automaton at INFO on every regeneration); in the parsers
    and files worlds the logging module is left alone, so that the root configuration each constructor performs - and
    anything the library derives from it - is real."""
    import logging
    if disable_logging:
        logging.disable(logging.CRITICAL)
    devnull = _real_os.open(_real_os.devnull, _real_os.O_WRONLY)
    _real_os.dup2(devnull, 2)
    sys.stderr = open(_real_os.devnull, "w")
