"""C20 coordinator: (1) static clause on the working tree's own parsetab.py: if its signature matches the
declared grammar, its actions / gotos / productions must equal a fresh generation; (2) fault enumeration sweep:
every cache state x {writable, unwritable} x the whole workload; (3) seeded restart sequences."""
import collections
import json
import os
import shutil
import subprocess
import time

import core
import runner
from check import Agg, NW, budget, seeds_from, _sample_of


def _load_table(path):
    ns = {}
    with open(path) as f:
        exec(compile(f.read(), path, "exec"), ns)
    return ns


def static_clause(scratch):
    """Returns (info dict, violation dict or None)."""
    info = {"as_found_present": os.path.exists(scratch.parsetab_as_found)}
    tmp = os.path.join(scratch.root, "static")
    shutil.rmtree(tmp, ignore_errors=True)
    os.makedirs(tmp)
    shutil.copytree(os.path.join(scratch.master, "simple_ddl_parser"), os.path.join(tmp, "simple_ddl_parser"))
    out = os.path.join(tmp, "fresh")
    r = subprocess.run([core.PY, os.path.join(core.HERE, "tablegen.py"), tmp, "fresh", out], stdout=subprocess.PIPE,
                       stderr=subprocess.DEVNULL, text=True, timeout=600, env=core.worker_env(0))
    if r.returncode != 0 or not r.stdout.strip() or not os.path.exists(os.path.join(out, "parsetab.py")):
        # PLY cannot build tables from the declared grammar at all.  The static clause has nothing to compare with; the
        # 'missing' / 'stale' cache states of the sweep exercise the library's own regeneration and report it.
        info["clause"] = "not evaluated: a fresh generation from the declared grammar failed (rc=%s)" % r.returncode
        info["fresh_generation_failed"] = True
        return info, None
    fresh = _load_table(os.path.join(out, "parsetab.py"))
    info["grammar_signature_sha"] = core.hashlib.sha256(fresh["_lr_signature"].encode()).hexdigest()[:16]
    info["fresh_states"] = len(set(s for v in fresh["_lr_action"].values() for s in v)) if fresh.get("_lr_action") else 0
    info["fresh_productions"] = len(fresh["_lr_productions"])
    info["fresh_action_entries"] = sum(len(v) for v in fresh["_lr_action"].values())
    if not info["as_found_present"]:
        info["clause"] = "vacuous: the working tree ships no parsetab.py (covered as cache state 'missing')"
        return info, None
    try:
        found = _load_table(scratch.parsetab_as_found)
    except BaseException as e:  # noqa
        info["clause"] = "vacuous: shipped file is not loadable (%s) - outside the property's enumerated states" % type(e).__name__
        return info, None
    info["shipped_signature_matches"] = found.get("_lr_signature") == fresh["_lr_signature"]
    info["shipped_version_matches"] = found.get("_tabversion") == fresh["_tabversion"]
    if not info["shipped_signature_matches"] or not info["shipped_version_matches"]:
        info["clause"] = ("vacuous for the shipped file: its signature/version does not match the declared grammar, so the "
                          "library regenerates (covered as cache state 'as_found')")
        return info, None
    prods = lambda ns: [tuple(p[:4]) for p in ns["_lr_productions"]]   # noqa: E731  (rule text, name, length, callback name)
    diffs = []
    if found["_lr_action"] != fresh["_lr_action"]:
        ks = sorted(set(found["_lr_action"]) | set(fresh["_lr_action"]))
        bad = [k for k in ks if found["_lr_action"].get(k) != fresh["_lr_action"].get(k)]
        diffs.append("actions differ for %d of %d tokens, e.g. %r" % (len(bad), len(ks), bad[:3]))
    if found["_lr_goto"] != fresh["_lr_goto"]:
        diffs.append("gotos differ")
    if prods(found) != prods(fresh):
        diffs.append("productions differ")
    if found.get("_lr_method") != fresh.get("_lr_method"):
        diffs.append("method differs")
    info["clause"] = "checked: shipped actions/gotos/productions compared with a fresh generation"
    info["shipped_equals_fresh"] = not diffs
    if diffs:
        return info, {"oracle": "shipped_table_mismatch", "observed": diffs,
                      "expected": "a table whose signature matches the grammar equals a fresh generation"}
    return info, None


def run(tier):
    prop = "C20"
    t0 = time.monotonic()
    base = core.base_seed()
    wall = budget(tier, 70)
    scratch = core.Scratch(NW)
    report = runner.Report(prop)
    agg = Agg()
    sweep_info = {"cells": 0, "total_cells": 0}
    cells = collections.Counter()
    foreign = {}
    try:
        static_info, sv = static_clause(scratch)
        if sv:
            res = {"status": "violation", "violations": [sv],
                   "trace": {"world": "tablecache", "prop": "C20", "static": True, "seed": None}}
            report.add_violation(res, 0, scratch, verify=False)
        groups = {"A": [0] * NW}
        pool = runner.Pool(scratch, "tablecache", groups)
        try:
            nparts = 48

            def a_jobs():
                yield {"cmd": "custom", "method": "foreign_strength", "args": {}, "id": "foreign_strength", "timeout": 900, "must": True}
                for stt, order in (("valid", "base_first"), ("missing", "base_first"), ("stale_benign", "base_first"), ("valid", "mutate_after_first")):
                    yield {"cmd": "custom", "method": "subclass_cell", "args": {"state": stt, "order": order},
                           "id": "subclass:%s:%s" % (stt, order), "timeout": 900, "must": True}
                for part in range(nparts):
                    yield {"cmd": "custom", "method": "sweep", "args": {"part": part, "nparts": nparts},
                           "id": "sweep%d" % part, "timeout": 900, "must": True}
                gen = seeds_from(base)
                i = 0
                while True:
                    s = next(gen)
                    yield {"cmd": "seed", "prop": prop, "seed": s, "tier": tier, "id": s, "want_trace": i < 3, "timeout": 900}
                    i += 1

            def on_result(group, job, res):
                if res is None:
                    agg.inconclusive += 1
                    agg.errors.append("worker died on job %s" % job.get("id"))
                    return
                if res.get("status") == "error":
                    agg.errors.append(res.get("error", "?")[-1500:])
                    return
                if job.get("id") == "foreign_strength":
                    foreign["strength"] = {k: res.get(k) for k in ("items", "differing", "differing_per_chunk", "ctor_exc")}
                    if res.get("foreign"):
                        foreign.update(res["foreign"])
                    if res.get("unavailable"):
                        foreign["strength"] = "unavailable (no table can be generated from the declared grammar)"
                    elif not res.get("differing") or min(res.get("differing_per_chunk") or [0]) == 0:
                        report.harness_errors.append("foreign-table fault is too weak to be observable: %s" % foreign["strength"])
                    return
                if job["cmd"] == "custom":
                    if str(job.get("id", "")).startswith("subclass:"):
                        sweep_info["subclass_cells"] = sweep_info.get("subclass_cells", 0) + 1
                    else:
                        sweep_info["cells"] += res.get("cells", 0)
                        sweep_info["total_cells"] = res.get("total_cells", 0)
                    agg.evals += res.get("cells", 0)
                    if res.get("foreign"):
                        foreign.update(res["foreign"])
                    for k in res.get("keys", []):
                        agg.distinct.add("sweep:" + k)
                        if not k.startswith("valid:rw"):
                            agg.distinct_nontrivial.add("sweep:" + k)
                    for k, v in (res.get("stats") or {}).items():
                        agg.stats[k] += v
                    for vres in res.get("violating", []):
                        report.add_violation(vres, 0, scratch, pool=pool)
                    return
                agg.add(group, job, res, bool(res.get("nontrivial")), res.get("dkey"))
                for c in res.get("cells", []):
                    cells[c] += 1
                if job.get("want_trace") and res.get("trace") and len(agg.samples) < 3:
                    agg.samples.append(_sample_of(res["trace"]))
                if res.get("status") == "violation":
                    report.add_violation(res, 0, scratch, pool=pool)
                    if len(report.violations) >= report.max_reports:
                        pool.stop = True
            pool.run({"A": a_jobs()}, on_result, deadline=t0 + wall)
        finally:
            pool.close()
        wall_s = time.monotonic() - t0
        for e in agg.errors[:5]:
            report.harness_errors.append(e)
        sweep_complete = sweep_info["total_cells"] > 0 and sweep_info["cells"] == sweep_info["total_cells"]
        if not sweep_complete and not report.violations:
            report.harness_errors.append("fault-enumeration sweep incomplete: %s" % sweep_info)
        min_ok = agg.evals >= 48
        cov = {
            "evaluations": agg.evals,
            "distinct_nontrivial": len(agg.distinct_nontrivial),
            "distinct": len(agg.distinct),
            "rule": ("evaluations = sweep cells (cache state x {writable, unwritable} x workload chunk; each cell is one fresh-interpreter "
                     "incarnation parsing its chunk of the full regression corpus + generated scripts) + seeded restart sequences "
                     "(2-6 incarnations; the durable cache state is set before each by the fault stream or kept from the previous "
                     "incarnation; hash seed drawn per incarnation); distinct = distinct sweep cells + distinct sequences of "
                     "(effective state, writability, hash-seed-changed); non-trivial = the incarnation started with a cache that is "
                     "not valid"),
            "samples": agg.samples or ["(none)"],
            "static_clause": static_info,
            "sweep": dict(sweep_info, complete=sweep_complete,
                          axes="state {valid, missing, stale_benign, stale_foreign, old_version, old_version_foreign, as_found} x {writable, unwritable(EACCES)} x 4 workload chunks, plus each state once under python -O, plus {missing, stale_benign, stale_foreign, old_version} x kill -9 at {start of regeneration, just before the table write} followed by a restart on what was left, plus {valid, missing, stale_foreign, old_version} met by the command-line entry point, plus {valid, missing, stale_foreign} with leftovers of an older release (foreign lextab.py, parser.out) next to the cache"),
            "foreign_table": foreign,
            "faults_fired": {k: v for k, v in sorted(agg.stats.items()) if k.startswith(("state_", "write_fault", "interp_", "crash_", "artefacts_", "entry_"))},
            "probes": {k: agg.stats[k] for k in ("incarnations", "items_parsed", "outcomes_compared", "cache_rewritten",
                                                 "started_with_invalid_cache", "cache_repaired", "subclass_probes", "subclass_items_differing_from_base", "tables_in_use_checked", "tables_in_use_uninspectable", "overlap_groups_checked",
                                                 "subclass_unavailable")},
            "transitions_seen": len(cells),
            "runs_per_hour": int(agg.evals / max(wall_s, 1e-6) * 3600),
            "seeds": {"base": base, "first": base * 1000003, "count": len(agg.digests)},
            "simulated_time": "none: no timers in the library",
            "inconclusive_runs": agg.inconclusive,
            "real_vs_stub": {"real": ["simple_ddl_parser", "ply incl. table read / signature check / regeneration / write",
                                      "process restart (every incarnation is a fresh interpreter)", "the cache file on tmpfs"],
                             "stub": ["EACCES on the table write raised by the ply.yacc.open seam (sandbox runs as root)", "log emission"]},
            "exhaustive": False,
            "tree_fingerprint": scratch.fingerprint,
            "table_cache_warmup": scratch.warm_info,
        }
        core.write_evidence(prop, tier, base, "fault_enumeration", cov, wall_s, len(report.violations),
                            ["valid-cache results of the same tree are the reference (a grammar change shifts both sides)",
                             "torn / empty / unloadable parsetab.py and concurrent regeneration are not injected: outside the property's enumerated cache states (DESIGN.md 7.4)",
                             "the property does not require the cache to be repaired: 'cache_repaired' is a probe, not an oracle"])
        print("C20 %s: %d evaluations (%d sweep cells of %d), static clause: %s, %d violations, %.1fs"
              % (tier, agg.evals, sweep_info["cells"], sweep_info["total_cells"], static_info.get("clause", "?")[:60],
                 len(report.violations), wall_s), flush=True)
        return report.exit_code(min_ok)
    finally:
        scratch.close()
