"""Workloads: the regression corpus and a small seeded script generator.

The generator only has to produce *diverse* multi-statement scripts that exercise every piece
of per-object / per-lexer state (comments of each style, SET lines, skip lines, "input.regex"
SerDe clauses, ALTER / INDEX referring to earlier tables, unsupported statements, quoted
names).  It carries no model of what a script means: every oracle compares the library with
itself (pristine-process reference), never with a hand-written expectation."""
import core

_NAMES = ["users", "orders", "items", "t1", "Customers", "log_2020", "a", "материалы", "prod_x"]
_SCHEMAS = [None, None, "dbo", "public", "prod", "my_schema"]
_QUOTES = [("", ""), ("", ""), ('"', '"'), ("`", "`"), ("[", "]")]
_TYPES = ["int", "integer", "bigint", "varchar(10)", "varchar(255)", "decimal(10,2)", "text",
          "timestamp", "date", "boolean", "char(3)", "numeric(8, 3)", "double precision",
          "int[]", "map<string,int>", "STRUCT<a:int,b:string>", "timestamp with time zone",
          "varchar", "uuid", "json"]
_COLS = ["id", "name", "created_at", "amount", "status", "user_id", "descr", "code", "val", "ts"]
_COL_TAILS = ["", "", " not null", " NOT NULL", " null", " default 0", " default 'x'", " primary key",
              " unique", " DEFAULT now()", " not null default 'a b'", " check (val > 0)",
              " references users (id)", " COMMENT 'a comment'", " default current_timestamp",
              " encode zstd", " generated always as (val * 2)", " default \u2018new\u2019", " COMMENT \u2018typographic\u2019"]
_TABLE_TAILS = ["", "", "", " tablespace ts1", " partitioned by (dt string)", " stored as parquet",
                " location 's3://bucket/path'", " comment 'table comment'", " cluster by (id)",
                " ENGINE=InnoDB", " with (fillfactor=70)", " diststyle even sortkey(id)",
                " row format delimited fields terminated by ','",
                " TBLPROPERTIES ('k'='v')", " data_retention_time_in_days = 3"]


def _q(rng, name):
    a, b = rng.choice(_QUOTES)
    return a + name + b


def _tname(rng, tables=None):
    if tables and rng.random() < 0.8:
        return rng.choice(tables)
    s = rng.choice(_SCHEMAS)
    n = _q(rng, rng.choice(_NAMES))
    return (_q(rng, s) + "." + n) if s else n


def _case(rng, kw):
    r = rng.random()
    return kw.upper() if r < 0.45 else (kw.lower() if r < 0.9 else kw.title())


def _create_table(rng, tables):
    name = _tname(rng)
    tables.append(name)
    ncols = rng.randint(1, 6)
    cols = []
    used = rng.sample(_COLS, ncols)
    if rng.random() < 0.12:
        # long identifiers: generated names (constraints, indexes) built from them pass any length limit
        tail = rng.choice(["_of_the_customer_billing_and_shipping_address_history", "_as_reported_by_the_upstream_system",
                           "_" + "x" * rng.choice([30, 64, 130])])
        used = [c + tail for c in used]
    for c in used:
        cols.append("%s %s%s" % (_q(rng, c), rng.choice(_TYPES), rng.choice(_COL_TAILS)))
    if rng.random() < 0.3:
        cols.append("%s (%s)" % (_case(rng, "primary key"), ", ".join(rng.sample(used, min(len(used), rng.randint(1, 2))))))
    if rng.random() < 0.2:
        cols.append("CONSTRAINT fk_%d FOREIGN KEY (%s) REFERENCES %s (id) on delete cascade"
                    % (rng.randint(1, 99), used[0], rng.choice(_NAMES)))
    if rng.random() < 0.15:
        cols.append("CONSTRAINT chk_%d CHECK (%s > 0)" % (rng.randint(1, 99), used[0]))
    if rng.random() < 0.2:
        cols.append("UNIQUE (%s)" % ", ".join(used[-rng.choice([1, 1, 2, 3]):]))
    head = _case(rng, "create") + " "
    r = rng.random()
    if r < 0.1:
        head += _case(rng, "external") + " "
    elif r < 0.2:
        head += _case(rng, "temporary") + " "
    elif r < 0.25:
        head += "OR REPLACE "
    head += _case(rng, "table") + " "
    if rng.random() < 0.2:
        head += "IF NOT EXISTS "
    style = rng.random()
    if style < 0.5:   # multi-line, possibly with inline comments
        lines = [head + name + " ("]
        for i, c in enumerate(cols):
            sep = "," if i < len(cols) - 1 else ""
            com = ""
            if rng.random() < 0.2:
                com = " -- col %s" % c.split()[0]
            elif rng.random() < 0.08:
                com = " /* inline %d */" % i
            lines.append("    " + c + sep + com)
        lines.append(")" + rng.choice(_TABLE_TAILS) + ";")
        return "\n".join(lines)
    return head + name + " (" + ", ".join(cols) + ")" + rng.choice(_TABLE_TAILS) + ";"


def _like_table(rng, tables):
    """CREATE TABLE x (LIKE y) / LIKE y followed by ordinary table clauses: keywords met in an unusual lexer state."""
    name = _tname(rng)
    src = rng.choice(tables) if tables and rng.random() < 0.6 else rng.choice(_NAMES)
    tables.append(name)
    head = _case(rng, "create") + " " + rng.choice(["", "", "TEMP ", "TEMPORARY "]) + _case(rng, "table") + " "
    body = "(LIKE %s)" % src if rng.random() < 0.7 else "LIKE %s" % src
    tail = rng.choice(_TABLE_TAILS + [" ON COMMIT DROP", " ON COMMIT DROP", " COMMENT='copy'", " comment 'a copy'"])
    return head + name + " " + body + tail + ";"


def _alter(rng, tables):
    t = _tname(rng, tables)
    k = rng.random()
    if k < 0.3:
        return "ALTER TABLE %s ADD CONSTRAINT fk_a%d FOREIGN KEY (%s) REFERENCES %s (id)%s;" % (
            t, rng.randint(1, 99), rng.choice(_COLS), rng.choice(_NAMES),
            rng.choice(["", "", " ON DELETE CASCADE", " ON DELETE CASCADE ON UPDATE CASCADE", " ON UPDATE SET NULL"]))
    if k < 0.5:
        return "alter table %s add primary key (%s);" % (t, rng.choice(_COLS))
    if k < 0.65:
        return "ALTER TABLE %s ADD CONSTRAINT ck_%d CHECK (%s > 0);" % (t, rng.randint(1, 99), rng.choice(_COLS))
    if k < 0.8:
        return "ALTER TABLE %s ADD %s %s;" % (t, rng.choice(_COLS) + "_n", rng.choice(_TYPES[:10]))
    if k < 0.9:
        return "ALTER TABLE %s ADD CONSTRAINT uq_%d UNIQUE (%s);" % (t, rng.randint(1, 99), rng.choice(_COLS))
    return "ALTER TABLE %s DROP COLUMN %s;" % (t, rng.choice(_COLS))


def _index(rng, tables):
    t = _tname(rng, tables)
    u = "UNIQUE " if rng.random() < 0.3 else ""
    c = "CLUSTERED " if (not u and rng.random() < 0.1) else ""
    return "CREATE %s%sINDEX idx_%d ON %s (%s%s);" % (
        u, c, rng.randint(1, 999), t, rng.choice(_COLS), rng.choice(["", " ASC", " DESC", ", " + rng.choice(_COLS)]))


def _sequence(rng, tables):
    opts = rng.sample(["INCREMENT BY 1", "START WITH 10", "MINVALUE 0", "MAXVALUE 99999", "CACHE 5", "NOCYCLE",
                       "INCREMENT 10", "START 5", "NOORDER", "NO MAXVALUE"], rng.randint(0, 4))
    return "CREATE SEQUENCE %s%s %s;" % ("IF NOT EXISTS " if rng.random() < 0.25 else "", _tname(rng), " ".join(opts))


def _type(rng, tables):
    k = rng.random()
    if k < 0.4:
        return "CREATE TYPE %s AS ENUM ('a', 'b', 'c d');" % _tname(rng)
    if k < 0.7:
        return "CREATE TYPE %s AS OBJECT (x int, y varchar(20));" % _tname(rng)
    return "CREATE DOMAIN %s AS varchar(10);" % _tname(rng)


def _schema(rng, tables):
    k = rng.random()
    if k < 0.4:
        return "CREATE SCHEMA %s;" % rng.choice(["s1", "IF NOT EXISTS s2", "s3 AUTHORIZATION joe", "s4 LOCATION 'hdfs://x'"])
    if k < 0.7:
        return "CREATE DATABASE %s;" % rng.choice(["db1", "db2", "db3 COMMENT 'c'"])
    return "CREATE TABLESPACE tbs%d DATAFILE 'f.dbf' SIZE 10M;" % rng.randint(1, 9)


def _comment_line(rng, tables):
    k = rng.random()
    if k < 0.4:
        return "-- comment %d about %s" % (rng.randint(1, 99), rng.choice(_NAMES))
    if k < 0.55:
        return "# mysql style %d" % rng.randint(1, 99)
    if k < 0.8:
        return "/* block %d */" % rng.randint(1, 99)
    return "/* multi\n line %d\n*/" % rng.randint(1, 99)


def _set_line(rng, tables):
    return rng.choice(["SET ANSI_NULLS ON", "SET search_path = public;", "set hive.exec.dynamic.partition=true;",
                       "SET QUOTED_IDENTIFIER ON", "GO", "USE mydb;", "GRANT SELECT ON t TO u;",
                       "INSERT INTO t VALUES (1, 'a');", "DELETE FROM t;"])


ERROR_SHAPES = ["CREATE FOO BAR baz;", "CREATE TABLE (;", "ALTER SESSION xx yy zz;",
                "CREATE TABLE t ( a int,, );", "DROP TABLE IF EXISTS x;", "CREATE TABLE x ( a int b c d e );",
                # a complete statement followed by junk: the error is met in a state that could also have accepted the end of input
                "CREATE TABLE broken (a int) PRIMARY;", "CREATE TABLE broken2 (a int) ) ;", "CREATE SEQUENCE s1 START 1 FOO BAR;",
                "CREATE TABLE t3 (a int) COMMENT;", "ALTER TABLE x ADD ;", "CREATE TYPE ty AS ENUM ('a') garbage;",
                "CREATE SCHEMA s9 s10 s11;", "CREATE INDEX i1 ON t (a) (b);"]


def _unsupported(rng, tables):
    return rng.choice(ERROR_SHAPES)


def _regex_table(rng, tables):
    name = _tname(rng)
    tables.append(name)
    rx = rng.choice([r"(\\d+),(\\w+)", r"([^ ]*) ([^ ]*)", r"(.*)"])
    return ("CREATE EXTERNAL TABLE %s (a string, b string)\n"
            "ROW FORMAT SERDE 'org.apache.hadoop.hive.serde2.RegexSerDe'\n"
            "WITH SERDEPROPERTIES (\"input.regex\" = \"%s\")\n"
            "STORED AS TEXTFILE;" % (name, rx))


def _serde_table(rng, tables):
    name = _tname(rng)
    tables.append(name)
    return ("CREATE EXTERNAL TABLE %s (a string, b int)\n"
            "ROW FORMAT SERDE 'org.apache.hadoop.hive.serde2.OpenCSVSerde'\n"
            "WITH SERDEPROPERTIES (\"separatorChar\" = \",\")\n"
            "LOCATION 's3://b/%d';" % (name, rng.randint(1, 9)))


def _glued(rng, tables):
    """Two statements on one line with no ';' between them: unusual but accepted input (the grammar's
    `expr : expr <clause>` rules merge them into one statement dict)."""
    a = rng.choice([_schema, _type, _sequence, _schema])(rng, tables).rstrip().rstrip(";")
    b = rng.choice([_schema, _schema, _sequence, _type])(rng, tables)
    return a + " " + b


_TABLE_RE = None


def tables_of(ddl):
    """Names of tables a script creates (textual; only used to aim follow-up scripts at them)."""
    global _TABLE_RE
    if _TABLE_RE is None:
        import re
        _TABLE_RE = re.compile(r"create\s+(?:or\s+replace\s+)?(?:external\s+|temporary\s+|temp\s+|global\s+|transient\s+)*"
                               r"table\s+(?:if\s+not\s+exists\s+)?([^\s(;]+)", re.I)
    out = []
    for t in _TABLE_RE.findall(ddl):
        if t not in out:
            out.append(t)
    return out[:6]


def gen_followup(rng, tables):
    """A script that only ALTERs / indexes tables created by ANOTHER script (alone, it refers to tables that
    do not exist: anything remembered process-wide from the other script changes its outcome)."""
    n = rng.randint(1, 4)
    parts = []
    for _ in range(n):
        t = rng.choice(tables)
        parts.append((_alter if rng.random() < 0.65 else _index)(rng, [t] * 5))
    return "\n".join(parts) + "\n", ("followup",) * n


def _weird(rng, tables):
    """Legal-but-odd lexical material: a very long identifier, a form feed between tokens, a nested-looking block comment,
    a NUL byte inside a comment, a statement with no space after the comma."""
    k = rng.random()
    name = _tname(rng)
    tables.append(name)
    if k < 0.25:
        return "CREATE TABLE %s (%s int, b varchar(10));" % (name, "c" + "x" * rng.choice([70, 300, 1200]))
    if k < 0.45:
        return "CREATE TABLE %s (a int,\x0cb varchar(10));" % name
    if k < 0.65:
        return "/* outer /* inner */ still comment? */\nCREATE TABLE %s (a int);" % name
    if k < 0.8:
        return "-- nul \x00 byte in a comment\nCREATE TABLE %s (a int,b int,c int);" % name
    return "CREATE TABLE %s (a int default -1,b decimal(10,2) default 1.5e3,c varchar(3) default '');" % name


_KINDS = [
    ("create", _create_table, 10), ("alter", _alter, 4), ("index", _index, 2), ("sequence", _sequence, 2),
    ("type", _type, 2), ("schema", _schema, 2), ("comment", _comment_line, 4), ("set", _set_line, 3),
    ("unsupported", _unsupported, 1), ("regex", _regex_table, 2), ("serde", _serde_table, 2),
    ("glued", _glued, 1), ("like", _like_table, 1), ("weird", _weird, 1),
]


def gen_script(rng, nmin=1, nmax=8, allow_unsupported=True):
    """Returns (ddl text, shape) where shape is the tuple of statement kinds (for distinctness)."""
    n = rng.randint(nmin, nmax)
    tables, parts, shape = [], [], []
    kinds = [k for k in _KINDS if allow_unsupported or k[0] != "unsupported"]
    weights = [k[2] for k in kinds]
    for i in range(n):
        name, fn, _ = rng.choices(kinds, weights=weights)[0]
        if name in ("alter", "index") and not tables:
            name, fn = "create", _create_table
        parts.append(fn(rng, tables))
        shape.append(name)
    sep = rng.choice(["\n", "\n\n", "\n"])
    text = sep.join(parts)
    if rng.random() < 0.5:
        text += "\n"
    return text, tuple(shape)


def pick_item(rng, p_corpus=0.6, max_len=6000):
    """A workload item: {"ddl", "flags", "run", "src"}.  Corpus items keep their recorded flags."""
    if rng.random() < p_corpus:
        c = core.corpus()
        for _ in range(20):
            i = rng.randrange(len(c))
            if len(c[i]["ddl"]) <= max_len:
                break
        it = c[i]
        return {"ddl": it["ddl"], "flags": dict(it["flags"]), "run": dict(it["run"]), "src": "corpus:%d" % i}
    ddl, shape = gen_script(rng)
    flags = {}
    if rng.random() < 0.35:
        flags["normalize_names"] = True
    if rng.random() < 0.25:
        flags["silent"] = False
    if rng.random() < 0.06:
        flags["log_level"] = 10       # logging.DEBUG: the first constructor of a process configures the root logger
    if rng.random() < 0.04:
        flags["debug"] = True         # documented constructor flag (implies non-silent)
    return {"ddl": ddl, "flags": flags, "run": {}, "src": "gen:" + ",".join(shape)}


def same_length_variant(rng, ddl):
    """Another text of exactly the same length (one letter changed): anything keyed by the size or the address of a
    buffer rather than by its content confuses the two."""
    idx = [i for i, ch in enumerate(ddl) if ch.isalpha() and ch.isascii()]
    if not idx:
        return ddl
    for _ in range(8):
        i = rng.choice(idx)
        ch = ddl[i]
        new = chr(ord(ch) + 1) if ch not in "zZ" else chr(ord(ch) - 1)
        out = ddl[:i] + new + ddl[i + 1:]
        if out != ddl:
            return out
    return ddl


def pick_related(rng, src, max_len=6000):
    """A corpus item from the neighbourhood of another one (the corpus is harvested test module by test module, so
    neighbours exercise the same dialect features): pairs of scripts that touch the same per-feature state."""
    if not src or not src.startswith("corpus:"):
        return None
    try:
        i = int(src.split(":")[1].split("+")[0])
    except ValueError:
        return None
    c = core.corpus()
    for _ in range(10):
        j = i + rng.choice([-8, -6, -4, -3, -2, -1, 1, 2, 3, 4, 6, 8])
        if 0 <= j < len(c) and len(c[j]["ddl"]) <= max_len:
            it = c[j]
            return {"ddl": it["ddl"], "flags": dict(it["flags"]), "run": dict(it["run"]), "src": "corpus:%d" % j}
    return None


def pick_run_kwargs(rng, modes, base=None):
    kw = dict(base or {})
    r = rng.random()
    if r < 0.5:
        kw["output_mode"] = rng.choice(modes)
    if rng.random() < 0.35:
        kw["group_by_type"] = True
    elif "group_by_type" in kw and rng.random() < 0.3:
        kw.pop("group_by_type")
    if rng.random() < 0.15:
        kw["json_dump"] = True
    return kw


def split_statements(ddl):
    """Split a script into droppable chunks for shrinking (never used by an oracle)."""
    chunks, cur = [], []
    for line in ddl.split("\n"):
        cur.append(line)
        if line.rstrip().endswith(";") or line.strip().upper() == "GO":
            chunks.append("\n".join(cur))
            cur = []
    if cur:
        chunks.append("\n".join(cur))
    return chunks
