"""The `files` world (C19): operation sequences over a private tmpfs tree.  The real entry points
run in-process (parse_from_file, DDLParser(...).run(dump=True, ...), cli.main()) with their
I/O going through the seams of seams.py to the real file system; environment states (missing /
nested / stale / torn / blocked targets) are set between ops and I/O errors are injected inside
ops.  Oracles: return value == pristine-process reference on the decoded text; dump file name
and JSON content; conservation of files (exact set of created / changed paths); heal after a
fault (the next fault-free dump to the same target satisfies the full oracle)."""
import ast
import collections
import hashlib
import io
import json
import os
import shutil
import subprocess
import sys

import core
import seams
import workload

EXTS = ("sql", "ddl", "hql", "bql")
NAMES_SINGLE = ["t.sql", "T.ddl", "x.hql", "q.bql", "my_tables.sql", "a-b.ddl", "таблицы.sql"]
NAMES_ODD = ["multi.part.sql", "noext", "other.txt", "trailing.", "v1.2.final.ddl", "UP.SQL",
             "[draft] users.sql", "users [v2].sql", "`q`.ddl", "\"quoted\".hql", " spaced name .sql"]
ENC_EXTRA = {
    "utf-8": "-- коммент 表 café\n",
    "utf-8-sig": "-- коммент 表\n",
    "utf-16": "-- коммент 表 café\n",
    "latin-1": "-- café crème ñ\n",
    "cp1251": "-- комментарий таблицы\n",
}
DUMP_PATHS = [None, "schemas", "out", "out/nested/deep", "ABS:tgt", "ABS:tgt/sub/dir", "."]
ENV_KINDS = ["rm_target", "mk_target", "stale", "torn", "block"]
IO_FAULTS = ["dump_open:EACCES", "dump_open:ENOSPC", "dump_write:ENOSPC", "makedirs:EACCES", "makedirs:ENOSPC",
             "input_open:EIO", "input_open:ENOENT", "input_open:EACCES"]


def base_candidates(name, lenient=False):
    """'<input base name>': the text before the FIRST dot of the file's base name - the naming rule the
    property's anchors state ("File naming (split on the first dot)").  Only directory mode, where the code
    skips multi-dot names altogether and the property says nothing about them, also tolerates the name minus
    its last extension (lenient=True)."""
    b = os.path.basename(name)
    c = [b.split(".")[0]]
    if lenient:
        alt = os.path.splitext(b)[0]
        if alt not in c:
            c.append(alt)
    return c


def must_process(name):
    parts = name.split(".")
    return len(parts) == 2 and parts[0] != "" and parts[1] in EXTS


def _snapshot(root):
    out = {}
    for d, dirs, files in os.walk(root):
        dirs.sort()
        rel = os.path.relpath(d, root)
        if rel != ".":
            out[rel + "/"] = "dir"
        for f in sorted(files):
            p = os.path.join(d, f)
            try:
                with open(p, "rb") as fh:
                    out[os.path.relpath(p, root)] = hashlib.sha1(fh.read()).hexdigest()
            except OSError:
                out[os.path.relpath(p, root)] = "unreadable"
    return out


def _changes(a, b):
    ch = {}
    for k in set(a) | set(b):
        if a.get(k) != b.get(k):
            ch[k] = "created" if k not in a else ("removed" if k not in b else "changed")
    return ch


def json_value(result):
    if isinstance(result, str):
        return json.loads(result)
    return json.loads(json.dumps(result))


class FilesWorld:
    def __init__(self, tree, workroot, ref):
        self.tree, self.workroot, self.ref = tree, workroot, ref
        import simple_ddl_parser
        assert os.path.abspath(simple_ddl_parser.__file__).startswith(os.path.abspath(tree))
        from simple_ddl_parser import DDLParser, parse_from_file
        from simple_ddl_parser.output.dialects import dialect_by_name
        import simple_ddl_parser.cli as cli
        self.DDLParser, self.parse_from_file, self.cli = DDLParser, parse_from_file, cli
        self.modes = sorted(dialect_by_name)
        seams.install_file_seams()
        seams.install_syscall_seam(os.path.join(os.path.abspath(tree), "simple_ddl_parser") + os.sep)
        self.runs_done = 0
        try:
            import simple_ddl_parser.parsetab  # noqa: F401  (data only; the worker itself never builds a parser)
        except BaseException:  # noqa
            sys.modules.pop("simple_ddl_parser.parsetab", None)

    # ------------------------------------------------------------------ generation
    def _text(self, rw, enc, clean_only=False):
        if not clean_only and rw.random() < 0.07:
            # degenerate inputs: empty file, only white space, only a comment, no trailing newline / terminator
            t = rw.choice(["", "\n", "   \n\t\n", "-- only a comment\n", "/* only a block comment */", "create table t (a int)",
                           "create table t (a int);create table u (b int)"])
            return t, {"flags": {}, "run": {}, "src": "degenerate"}
        for _ in range(30):
            it = workload.pick_item(rw, 0.5, max_len=3000)
            text = it["ddl"]
            if "\r" in text:
                continue
            if rw.random() < 0.6:
                text = ENC_EXTRA[enc] + text
            try:
                text.encode(enc)
            except UnicodeError:
                continue
            if clean_only:
                out = self.ref(text, {}, {})
                if out[0] != "ok":
                    continue
            return text, it
        return "create table t (a int);\n", {"flags": {}, "run": {}, "src": "fallback"}

    def api_ref(self, text, settings, kw):
        """What the in-memory API returns for this text from the CURRENT process state: evaluated in a forked child, so
        the entry point under test then starts from the very same state.  C19 is an equivalence between entry points;
        comparing with a pristine process instead would also report defects of repeated use (C14 / C15) here."""
        import isolate
        self._api_refs = getattr(self, "_api_refs", 0) + 1

        def fn():
            try:
                p = self.DDLParser(text, **(settings or {}))
            except BaseException as e:  # noqa
                return core.outcome_of_exception(e)
            try:
                return ["ok", core.canon(p.run(**kw))]
            except BaseException as e:  # noqa
                return core.outcome_of_exception(e)
        return isolate.run_isolated(fn)

    def _kw(self, ro, it):
        return workload.pick_run_kwargs(ro, self.modes, it.get("run"))

    def generate(self, prop, seed, tier="quick", **kw):
        rs, ro, rw, rf = (core.stream(seed, n) for n in ("swarm", "ops", "workload", "faults"))
        swarm = {"faults": rs.random() < 0.55, "nops": rs.randint(3, 10), "p_env": rs.choice([0.15, 0.3, 0.5]),
                 "p_io": rs.choice([0.1, 0.25, 0.4]), "cli_bias": rs.choice([0.3, 0.5, 0.7]),
                 "subprocess_cli": tier == "thorough" and rs.random() < 0.25}
        ops = []
        inputs = []       # (dir, name, enc, item)
        last_dump = None
        while len(ops) < swarm["nops"]:
            r = ro.random()
            if not inputs or r < 0.2:
                enc = ro.choice(["utf-8"] * 4 + ["utf-8-sig", "utf-16", "latin-1", "cp1251"])
                d = ro.choice(["in", "in", "in2", "in2", "rel-1.2", "v[1-2]"])      # directory names with a dot / with glob metacharacters
                name = ro.choice(NAMES_SINGLE * 3 + NAMES_ODD)
                text, it = self._text(rw, enc, clean_only=(d == "in2"))
                if ro.random() < 0.06:
                    # line-boundary characters that are NOT newlines for a text file: form feed, vertical tab, and (where the
                    # codec has them) NEL / LINE SEPARATOR
                    sep = ro.choice(["\x0c", "\x0b", "\x1c"] + (["\u2028", "\x85"] if enc in ("utf-8", "utf-8-sig", "utf-16") else []))
                    text = "-- page%sbreak 'a%sb'\n" % (sep, sep) + text
                put = {"op": "put", "dir": d, "name": name, "text": text, "enc": enc}
                nl = ro.random()
                if nl < 0.2:
                    # CRLF / CR line endings on disk: text-mode reading translates them, so the decoded content -
                    # and the reference - is the "\n" text
                    put["nl"] = "\r\n" if nl < 0.14 else "\r"
                ops.append(put)
                inputs.append((d, name, enc, it))
                continue
            d, name, enc, it = ro.choice(inputs)
            if ro.random() < 0.06 and not name.startswith("lnk"):
                # the same input reached through a symbolic link with another base name
                lname = "lnk_" + name.split(".")[0] + "." + ro.choice(EXTS)
                ops.append({"op": "link", "dir": d, "name": lname, "to": name})
                inputs.append((d, lname, enc, it))
                continue
            faults = []
            if swarm["faults"] and rf.random() < swarm["p_io"]:
                f = rf.choice(IO_FAULTS)
                site, kind = f.split(":")
                fd = {"site": site, "kind": kind}
                if site == "dump_write":
                    fd["after"] = int(2 ** rf.uniform(0, 11))
                faults.append(fd)
            elif swarm["faults"] and core.stream(seed, "syserr:%d" % len(ops)).random() < 0.08:
                # an I/O error raised by the os-level call itself
                r_ = core.stream(seed, "syserr-at:%d" % len(ops))
                faults.append({"site": "sys", "at": r_.randint(1, 10), "kind": r_.choice(["EIO", "EACCES", "ENOSPC"])})
            elif swarm["faults"] and core.stream(seed, "peer:%d" % len(ops)).random() < 0.12:
                # a concurrent peer dumps into the same target just before the k-th os-level call of this operation
                faults.append({"site": "sys", "at": core.stream(seed, "peer-at:%d" % len(ops)).randint(1, 12),
                               "kind": core.stream(seed, "peer-kind:%d" % len(ops)).choice(["peer_dump", "peer_call", "peer_call"])})
            if swarm["faults"] and last_dump is not None and ro.random() < 0.35 and ops[-1].get("faults"):
                # heal: repeat the previous (faulted) dump without faults
                again = json.loads(json.dumps(ops[-1]))
                again["faults"] = []
                ops.append(again)
                continue
            if swarm["faults"] and rf.random() < swarm["p_env"]:
                tgt = ro.choice(DUMP_PATHS[1:-1])
                ops.append({"op": "env", "kind": rf.choice(ENV_KINDS), "target": tgt, "name": name,
                            "junk": int(2 ** rf.uniform(4, 14))})
            r = ro.random()
            if r < swarm["cli_bias"]:
                utf8 = [x for x in inputs if x[2] in ("utf-8", "utf-8-sig")]
                if not utf8:
                    continue
                d, name, enc, it = ro.choice(utf8)
                rr = ro.random()
                common = {"target": ro.choice(DUMP_PATHS[:-1] + (["ABS:in2"] if ro.random() < 0.3 else [])), "v": ro.random() < 0.35, "no_dump": ro.random() < 0.25,
                          "mode": ro.choice([None, None] + self.modes), "faults": faults}
                if rr < 0.55:
                    op = dict(common, op="cli_file", dir=d, name=name, rel=ro.random() < 0.2,
                              sub=swarm["subprocess_cli"] and not faults and ro.random() < 0.3)
                elif rr < 0.9:
                    if swarm["faults"] and rf.random() < 0.5:
                        common["faults"] = faults + [{"site": "listdir", "perm_seed": rf.randrange(10 ** 6)}]
                    op = dict(common, op="cli_dir", dir=ro.choice(["in2", "in2", "in", "v[1-2]", "rel-1.2"]), slash=ro.random() < 0.3)
                else:
                    op = dict(common, op="cli_missing", path=ro.choice(["nope.sql", "in/absent.ddl", "no/such/dir"]))
                ops.append(op)
                last_dump = op
            elif r < swarm["cli_bias"] + (1 - swarm["cli_bias"]) * 0.7:
                dump = ro.random() < 0.6
                op = {"op": "api_file", "dir": d, "name": name,
                      "enc": enc if (enc != "utf-8" or ro.random() < 0.5) else None,
                      "settings": dict(it.get("flags") or {}) if ro.random() < 0.7 else None,
                      "kw": self._kw(ro, it), "dump": dump,
                      "dump_path": ro.choice(DUMP_PATHS) if dump else None, "faults": faults}
                if ro.random() < 0.04:
                    op["enc"] = "utf-8" if enc in ("cp1251", "latin-1", "utf-16") else "ascii"   # wrong codec on purpose
                ops.append(op)
                last_dump = op if dump else last_dump
            else:
                text, it2 = self._text(rw, "utf-8")
                op = {"op": "api_dump", "text": text, "settings": dict(it2.get("flags") or {}), "kw": self._kw(ro, it2),
                      "file_path": ro.choice(["some/where/" + n for n in NAMES_SINGLE + NAMES_ODD[:2]] + [os.path.join("in", name)] +
                                             ["./t.sql", "../up.ddl", "rel-1.2/" + name, "my.project/ddl/customers", "v1.0/x.hql"]),
                      "dump_path": ro.choice(DUMP_PATHS), "faults": [f for f in faults if f["site"] != "input_open"]}
                ops.append(op)
                last_dump = op
        return {"world": "files", "prop": "C19", "seed": seed, "swarm": swarm, "ops": ops}

    def sweep_traces(self, seed):
        """Fault enumeration: every dumping entry point x every target state x every I/O fault kind
        (and fault-free), each followed by a fault-free repeat (heal check)."""
        rw = core.stream(seed, "sweep")
        out = []
        entries = ["api_file", "api_dump", "cli_file", "cli_dir"]
        for e in entries:
            for env in [None] + ENV_KINDS:
                for f in [None] + IO_FAULTS + ["listdir:perm"] + (["sys:%d" % n for n in range(1, 11)] + ["syscall:%d" % n for n in range(1, 11)] if env in (None, "rm_target") else []) + (["syserr:%d" % n for n in range(1, 11)] if env is None else []):
                    if f == "listdir:perm" and e != "cli_dir":
                        continue
                    if f and f.startswith("input_open") and e == "api_dump":
                        continue
                    text, it = self._text(rw, "utf-8", clean_only=True)
                    text2, it2 = self._text(rw, "utf-8", clean_only=True)
                    tgt = rw.choice(["out", "out/nested/deep", "ABS:tgt", "schemas"])
                    ops = [{"op": "put", "dir": "in2", "name": "t.sql", "text": text, "enc": "utf-8"},
                           {"op": "put", "dir": "in2", "name": "x.hql", "text": text2, "enc": "utf-8"},
                           {"op": "put", "dir": "in2", "name": "other.txt", "text": text2, "enc": "utf-8"}]
                    if env:
                        ops.append({"op": "env", "kind": env, "target": tgt, "name": "t.sql", "junk": 5000})
                    faults = []
                    if f == "listdir:perm":
                        faults = [{"site": "listdir", "perm_seed": rw.randrange(10 ** 6)}]
                    elif f and f.startswith("sys:"):
                        faults = [{"site": "sys", "at": int(f[4:]), "kind": "peer_dump"}]
                    elif f and f.startswith("syserr:"):
                        faults = [{"site": "sys", "at": int(f[7:]), "kind": rw.choice(["EIO", "EACCES", "ENOSPC"])}]
                    elif f and f.startswith("syscall:"):
                        faults = [{"site": "sys", "at": int(f[8:]), "kind": "peer_call"}]
                    elif f:
                        site, kind = f.split(":")
                        faults = [{"site": site, "kind": kind}]
                        if site == "dump_write":
                            faults[0]["after"] = rw.choice([0, 1, 7, 60, 300])
                    if e == "api_file":
                        op = {"op": "api_file", "dir": "in2", "name": "t.sql", "enc": None, "settings": None,
                              "kw": {}, "dump": True, "dump_path": tgt, "faults": faults}
                    elif e == "api_dump":
                        op = {"op": "api_dump", "text": text, "settings": {}, "kw": {}, "file_path": "in2/t.sql",
                              "dump_path": tgt, "faults": faults}
                    elif e == "cli_file":
                        op = {"op": "cli_file", "dir": "in2", "name": "t.sql", "target": tgt, "v": False,
                              "no_dump": False, "mode": None, "faults": faults, "sub": False}
                    else:
                        op = {"op": "cli_dir", "dir": "in2", "target": tgt, "v": False, "no_dump": False,
                              "mode": None, "faults": faults}
                    ops.append(op)
                    again = json.loads(json.dumps(op))
                    again["faults"] = []
                    ops.append(again)
                    out.append({"world": "files", "prop": "C19", "seed": seed, "swarm": {"sweep": [e, env, f]}, "ops": ops})
        return out

    def sweep(self, seed, part, nparts):
        import shrink
        traces = self.sweep_traces(seed)
        res_all = {"status": "ok", "cells": 0, "keys": [], "violating": [], "stats": collections.Counter()}
        for i, t in enumerate(traces):
            if i % nparts != part:
                continue
            r = self.execute(t)
            res_all["cells"] += 1
            res_all["keys"].append(core.cjson(t["swarm"]["sweep"]))
            for k, v in r["stats"].items():
                res_all["stats"][k] += v
            if r["status"] == "violation" and len(res_all["violating"]) < 2:
                res_all["violating"].append(shrink.shrink(self, r))
        res_all["stats"] = dict(res_all["stats"])
        res_all["total_cells"] = len(traces)
        return res_all

    # ------------------------------------------------------------------ execution
    def _abs(self, root, p, rel_to_cwd=True):
        if p is None:
            return None
        if p.startswith("ABS:"):
            return os.path.join(root, p[4:])
        return p            # relative: resolved by the library against the process cwd (= root/cwd)

    def _abs_real(self, root, p):
        if p.startswith("ABS:"):
            return os.path.join(root, p[4:])
        return os.path.normpath(os.path.join(root, "cwd", p))

    def execute(self, trace, keep_events=False):
        """Every run starts from the same process state: executed in a forked child (isolate.py)."""
        import isolate
        return isolate.run_isolated(lambda: self.execute_here(trace, keep_events), ref=self.ref)

    def execute_here(self, trace, keep_events=False):
        log = core.EventLog(keep=keep_events)
        log.add("trace", decided=True, prop="C19", seed=trace.get("seed"), swarm=trace.get("swarm"), ops=trace["ops"])
        root = os.path.join(self.workroot, "c19-%d" % self.runs_done)
        self.runs_done += 1
        shutil.rmtree(root, ignore_errors=True)
        for d in ("in", "in2", "cwd", "rel-1.2", "v[1-2]"):
            os.makedirs(os.path.join(root, d))
        os.chdir(os.path.join(root, "cwd"))
        stats = collections.Counter()
        violations = []
        kinds = []
        files = {}      # (dir, name) -> (text, enc)
        links = {}      # (dir, link name) -> (dir, target name)
        faulted_targets = set()
        try:
            for i, op in enumerate(trace["ops"]):
                stats["ops"] += 1
                k = op["op"]
                if k == "put":
                    p = os.path.join(root, op["dir"], op["name"])
                    try:
                        with open(p, "w", encoding=op["enc"], newline="") as f:
                            f.write(op["text"].replace("\n", op["nl"]) if op.get("nl") else op["text"])
                    except (UnicodeError, OSError):
                        continue
                    files[(op["dir"], op["name"])] = (op["text"], op["enc"])
                    for lk, tgt in links.items():
                        if tgt == (op["dir"], op["name"]):
                            files[lk] = files[tgt]
                    if op.get("nl"):
                        stats["inputs_crlf_or_cr"] += 1
                    kinds.append("put:%s:%s%s" % (_name_class(op["name"]), op["enc"], ":crlf" if op.get("nl") else ""))
                    continue
                if k == "link":
                    if (op["dir"], op["to"]) in files and (op["dir"], op["name"]) not in files:
                        try:
                            os.symlink(op["to"], os.path.join(root, op["dir"], op["name"]))
                            files[(op["dir"], op["name"])] = files[(op["dir"], op["to"])]
                            links[(op["dir"], op["name"])] = (op["dir"], op["to"])
                            stats["symlink_inputs"] += 1
                            kinds.append("link")
                        except OSError:
                            pass
                    continue
                if k == "env":
                    self._apply_env(root, op, stats)
                    kinds.append("env:" + op["kind"])
                    continue
                before = _snapshot(root)
                v, kind = self._do_op(root, op, files, before, stats, log, i, faulted_targets)
                kinds.append(kind)
                if v:
                    for x in v:
                        x["op_index"] = i
                        x["op"] = k
                    violations.extend(v)
                    break
        finally:
            seams.HOOKS.io = None
            seams.HOOKS.sys = None
            os.chdir(self.workroot)
            shutil.rmtree(root, ignore_errors=True)
        stats["api_refs"] = getattr(self, "_api_refs", 0)
        res = {"status": "violation" if violations else "ok", "violations": violations, "digest": log.digest(),
               "ops_digest": log.ops_digest(), "stats": dict(stats), "kinds": kinds,
               "dkey": core.digest_of(sorted(set(kinds)))[:16], "trace": trace, "nevents": log.seq,
               "nontrivial": stats["dumps_checked"] + stats["faults_fired"] > 0, "cells": sorted(set(kinds))}
        if keep_events:
            res["events"] = log.events
        return res

    def _apply_env(self, root, op, stats):
        try:
            self._apply_env_inner(root, op, stats)
        except OSError:
            # an ancestor of the target is occupied by a regular file (earlier `block`): clear and retry once
            p = self._abs_real(root, op["target"])
            while p and len(p) > len(root):
                if os.path.isfile(p):
                    os.remove(p)
                p = os.path.dirname(p)
            try:
                self._apply_env_inner(root, op, stats)
            except OSError:
                stats["env_skipped"] += 1

    def _apply_env_inner(self, root, op, stats):
        tgt = self._abs_real(root, op["target"])
        kind = op["kind"]
        stats["env_" + kind] += 1
        bases = base_candidates(op["name"])
        if kind == "rm_target":
            shutil.rmtree(tgt, ignore_errors=True)
            if os.path.isfile(tgt):
                os.remove(tgt)
        elif kind == "mk_target":
            if os.path.isfile(tgt):
                os.remove(tgt)
            os.makedirs(tgt, exist_ok=True)
        elif kind in ("stale", "torn"):
            if os.path.isfile(tgt):
                os.remove(tgt)
            os.makedirs(tgt, exist_ok=True)
            for b in bases[:1]:
                with open(os.path.join(tgt, b + "_schema.json"), "w") as f:
                    if kind == "stale":
                        json.dump([{"stale": "x" * int(op.get("junk", 1000))}], f, indent=1)
                    else:
                        f.write(json.dumps([{"torn": "y" * int(op.get("junk", 1000))}], indent=1)[: max(3, int(op.get("junk", 1000)) // 2)])
        elif kind == "block":
            # target path occupied by a regular file
            if os.path.isdir(tgt):
                shutil.rmtree(tgt, ignore_errors=True)
            os.makedirs(os.path.dirname(tgt), exist_ok=True)
            if not os.path.exists(tgt):
                with open(tgt, "w") as f:
                    f.write("i am a file\n")

    # one API / CLI op with its oracles --------------------------------------------------------
    def _do_op(self, root, op, files, before, stats, log, i, faulted_targets):
        k = op["op"]
        plan = seams.IoPlan(json.loads(json.dumps(op.get("faults") or [])))
        for f_ in plan.faults:
            if f_["site"] == "sys":
                f_["target"] = self._abs_real(root, op.get("dump_path") or op.get("target") or "schemas")

        def peer_call(target):
            b4 = _snapshot(root)
            pdir = os.path.join(root, "peer_in")
            os.makedirs(pdir, exist_ok=True)
            ppath = os.path.join(pdir, "peer_tbl.sql")
            with open(ppath, "w") as fh_:
                fh_.write("create table peer_tbl (id int primary key, note varchar(20));\n")
            try:
                self.parse_from_file(ppath, dump=True, dump_path=target)
                stats["peer_calls_ok"] += 1
            except Exception:  # noqa   (the target is blocked by an environment fault, ...): the peer's own business
                stats["peer_calls_failed"] += 1
            return sorted(_changes(b4, _snapshot(root)))
        plan.peer_call = peer_call
        viol = []
        outcome = None
        stdout = ""
        expected_dumps = []      # list of (target dir abs, [candidate bases], [acceptable json values]) must exist
        optional_dumps = []      # may exist (ambiguous inputs in directory mode)
        expect_result = None     # reference outcome for the return value
        verbose = False
        dumping = False
        is_cli = k.startswith("cli")
        tgt_abs = None
        if k == "api_file":
            key = (op["dir"], op["name"])
            if key not in files:
                return None, "skip"
            text, enc = files[key]
            path = os.path.join(root, op["dir"], op["name"])
            use_enc = op.get("enc")
            try:
                with open(path, "r", encoding=use_enc or "utf-8") as f:
                    decoded = f.read()
                dec_exc = None
            except (UnicodeError, LookupError) as e:
                decoded, dec_exc = None, type(e).__name__
            args = {}
            if use_enc:
                args["encoding"] = use_enc
            if op.get("settings") is not None:
                args["parser_settings"] = dict(op["settings"])
            kw = dict(op["kw"])
            dumping = bool(op.get("dump"))
            if dumping:
                kw["dump"] = True
                if op.get("dump_path") is not None:
                    kw["dump_path"] = self._abs(root, op["dump_path"])
                tgt_abs = self._abs_real(root, op.get("dump_path") or "schemas")
            if dec_exc is None:
                expect_result = self.api_ref(decoded, op.get("settings") or {}, op["kw"])
            seams.HOOKS.io = plan
            seams.HOOKS.sys = plan.on_sys
            try:
                r = self.parse_from_file(path, **args, **kw)
                outcome = ["ok", r]
            except BaseException as e:  # noqa
                outcome = ["exc", e]
            finally:
                seams.HOOKS.io = None
                seams.HOOKS.sys = None
            if dec_exc is not None:
                stats["decode_errors"] += 1
                if outcome[0] == "ok" and not plan.fired:
                    viol.append({"oracle": "decode_error_swallowed", "observed": "returned normally",
                                 "expected": dec_exc})
                return viol, "api_file:decode_error"
            bases = base_candidates(op["name"])
            kind = "api_file:%s:%s:%s" % (_name_class(op["name"]), enc, "dump" if dumping else "nodump")
        elif k == "api_dump":
            kw = dict(op["kw"])
            kw.update({"dump": True, "file_path": op["file_path"]})
            if op.get("dump_path") is not None:
                kw["dump_path"] = self._abs(root, op["dump_path"])
            tgt_abs = self._abs_real(root, op.get("dump_path") or "schemas")
            dumping = True
            expect_result = self.api_ref(op["text"], op.get("settings") or {}, op["kw"])
            seams.HOOKS.io = plan
            seams.HOOKS.sys = plan.on_sys
            try:
                p = self.DDLParser(op["text"], **(op.get("settings") or {}))
                r = p.run(**kw)
                outcome = ["ok", r]
            except BaseException as e:  # noqa
                outcome = ["exc", e]
            finally:
                seams.HOOKS.io = None
                seams.HOOKS.sys = None
            bases = base_candidates(op["file_path"])
            kind = "api_dump:%s" % _name_class(os.path.basename(op["file_path"]))
        elif is_cli:
            argv = ["sdp"]
            if k == "cli_file":
                if (op["dir"], op["name"]) not in files or files[(op["dir"], op["name"])][1] not in ("utf-8", "utf-8-sig"):
                    return None, "skip"
                full = os.path.join(root, op["dir"], op["name"])
                # sometimes spelled relative to the working directory (with a '..' in it)
                argv.append(os.path.relpath(full, os.path.join(root, "cwd")) if op.get("rel") else full)
            elif k == "cli_dir":
                argv.append(os.path.join(root, op["dir"]) + ("/" if op.get("slash") else ""))
            else:
                argv.append(os.path.join(root, op["path"]))
            if op.get("target") is not None:
                argv += ["-t", self._abs(root, op["target"])]
            if op.get("v"):
                argv.append("-v")
            if op.get("no_dump"):
                argv.append("--no-dump")
            if op.get("mode"):
                argv += ["-o", op["mode"]]
            dumping = not op.get("no_dump")
            verbose = bool(op.get("v") or op.get("no_dump"))
            tgt_abs = self._abs_real(root, op.get("target") or "schemas")
            # "as the API called once per file": the API results, from the state the command starts in
            run_kw = {"output_mode": op["mode"]} if op.get("mode") else {}
            cli_pre = {}
            if k == "cli_file":
                with open(os.path.join(root, op["dir"], op["name"]), "r", encoding="utf-8") as f:
                    cli_pre["file"] = self.api_ref(f.read(), {}, run_kw)
            elif k == "cli_dir":
                for n in sorted(n for (d, n) in files if d == op["dir"]):
                    try:
                        with open(os.path.join(root, op["dir"], n), "r", encoding="utf-8") as f:
                            text = f.read()
                    except UnicodeError:
                        cli_pre[n] = None
                        continue
                    cli_pre[n] = self.api_ref(text, {}, run_kw)
            if k == "cli_file" and op.get("sub"):
                outcome, stdout = self._cli_subprocess(argv)
                stats["cli_subprocess"] += 1
            else:
                outcome, stdout = self._cli_inprocess(argv, plan)
            kind = "%s:%s%s%s" % (k, "nodump" if op.get("no_dump") else "dump", ":v" if op.get("v") else "",
                                  ":o" if op.get("mode") else "")
        else:
            return None, "skip"

        fired = list(plan.fired)
        stats["sys_calls_for_library"] += plan.sys_n
        # a permuted listing and a concurrent peer dumping into the same target are not error conditions: no relaxation
        io_fault_fired = [f for f in fired if f["kind"] not in ("permuted", "peer_dump", "peer_call")]
        if fired:
            stats["faults_fired"] += len(fired)
            for f in fired:
                stats["fault_%s_%s" % (f["site"], f["kind"])] += 1
        after = _snapshot(root)
        ch = _changes(before, after)
        for f_ in fired:
            if f_["kind"] == "peer_dump":
                # what the peer itself created is not this operation's doing
                for pth in f_.get("created", ()):
                    ch.pop(os.path.relpath(pth.rstrip("/"), root) + ("/" if pth.endswith("/") else ""), None)
            elif f_["kind"] == "peer_call":
                for rel in f_.get("changed", ()):
                    if rel.endswith("peer_tbl_schema.json") or rel.startswith("peer_in/") or rel.endswith("/"):
                        ch.pop(rel, None)
        log.add("op", i=i, op=k, outcome=outcome[0], fired=[(f["site"], f["kind"]) for f in fired],
                changed=sorted(ch.items()))

        # ---------------- expectations per entry point
        run_kw = {"output_mode": op["mode"]} if (is_cli and op.get("mode")) else {}
        if k == "cli_file":
            expect_result = cli_pre["file"]
            bases = base_candidates(op["name"])
        allowed = set()
        if k == "cli_dir":
            members = sorted(n for (d, n) in files if d == op["dir"])
            must, optional, clean = [], [], True
            for n in members:
                out = cli_pre.get(n)
                if out is None:
                    # the CLI has no encoding option: an undecodable member makes it raise at that file
                    clean = False
                    continue
                if must_process(n):
                    must.append((n, out))
                    if out[0] != "ok":
                        clean = False
                else:
                    optional.append((n, out))
                    if out[0] != "ok":
                        clean = False
            stats["dir_members"] += len(members)
            # group acceptable JSON values per dump file name
            per_file_must, per_file_opt = {}, {}
            for n, out in must:
                if out[0] == "ok":
                    per_file_must.setdefault(base_candidates(n)[0], []).append(_unc(out[1]))
            for n, out in optional + must:
                if out[0] == "ok":
                    for b in base_candidates(n, lenient=True):
                        per_file_opt.setdefault(b, []).append(_unc(out[1]))
            return self._judge_dir(root, op, outcome, stdout, ch, tgt_abs, per_file_must, per_file_opt, clean,
                                   io_fault_fired, dumping, stats, before), kind + (":clean" if clean else ":unclean")
        if k == "cli_missing":
            if ch:
                viol.append({"oracle": "unexpected_files", "observed": sorted(ch.items()), "expected": "nothing written for a missing path"})
            return viol, kind

        # ---------------- single-input ops: return value
        blocked = dumping and _path_blocked(tgt_abs, before, root)
        if blocked:
            stats["blocked_targets"] += 1
        relaxed = (bool(io_fault_fired) or blocked) and outcome[0] == "exc" and isinstance(outcome[1], OSError)
        if outcome[0] == "exc" and isinstance(outcome[1], SystemExit) and is_cli:
            code = outcome[1].code
            if code not in (None, 0):
                viol.append({"oracle": "cli_exit_status", "observed": repr(code), "expected": "0"})
            outcome = ["ok", None]
        got = None
        if relaxed:
            stats["relaxed_ops"] += 1
            if tgt_abs:
                faulted_targets.add(tgt_abs)
        else:
            if outcome[0] == "ok":
                if is_cli:
                    got = None
                else:
                    got = ["ok", core.canon(outcome[1])]
            else:
                got = core.outcome_of_exception(outcome[1])
            if not is_cli:
                stats["returns_checked"] += 1
                if got != expect_result:
                    viol.append({"oracle": "return_value", "expected": core.short(expect_result, 500),
                                 "observed": core.short(got, 500), "diff": core.first_diff(expect_result, got),
                                 "fault_fired": bool(fired)})
            else:
                # the CLI shows the API result only through stdout and the dump
                if expect_result[0] != "ok":
                    if outcome[0] != "exc" or type(outcome[1]).__name__ != expect_result[1]:
                        viol.append({"oracle": "cli_exception", "expected": core.short(expect_result, 300),
                                     "observed": repr(outcome[1])[:300] if outcome[0] == "exc" else "returned normally"})
                elif outcome[0] == "exc":
                    viol.append({"oracle": "cli_exception", "expected": "normal completion",
                                 "observed": repr(outcome[1])[:300], "fault_fired": bool(fired)})
                elif verbose:
                    stats["stdout_checked"] += 1
                    if not _stdout_shows(stdout, _unc(expect_result[1])):
                        viol.append({"oracle": "cli_stdout", "expected": core.short(expect_result[1], 300),
                                     "observed": stdout[:300]})
        # ---------------- dump content + conservation
        ok_return = (not relaxed) and expect_result[0] == "ok" and outcome[0] == "ok"
        if dumping and ok_return:
            val = json_value(_unc(expect_result[1]))
            found = [b for b in bases if os.path.isfile(os.path.join(tgt_abs, b + "_schema.json"))]
            found_changed = [b for b in bases
                             if os.path.relpath(os.path.join(tgt_abs, b + "_schema.json"), root) in ch]
            stats["dumps_checked"] += 1
            if tgt_abs in faulted_targets:
                stats["heal_checks"] += 1
                faulted_targets.discard(tgt_abs)
            if not found:
                viol.append({"oracle": "dump_missing", "expected": os.path.join(tgt_abs, bases[0] + "_schema.json"),
                             "observed": sorted(ch.items())[:10]})
            else:
                use = (found_changed or found)[0]
                p = os.path.join(tgt_abs, use + "_schema.json")
                try:
                    with open(p) as f:
                        data = json.load(f)
                    if data != val:
                        viol.append({"oracle": "dump_content", "path": os.path.relpath(p, root),
                                     "expected": core.short(val, 400), "observed": core.short(data, 400)})
                except ValueError as e:
                    viol.append({"oracle": "dump_content", "path": os.path.relpath(p, root),
                                 "expected": "complete JSON", "observed": "not JSON: %s" % e})
                allowed.add(os.path.relpath(p, root))
        if dumping and relaxed:
            for b in bases:
                allowed.add(os.path.relpath(os.path.join(tgt_abs, b + "_schema.json"), root))
        if dumping and (ok_return or relaxed) and tgt_abs:
            # directories on the way to the target may be created
            p = tgt_abs
            while p and p != root and len(p) > len(root):
                allowed.add(os.path.relpath(p, root) + "/")
                p = os.path.dirname(p)
        unexpected = sorted((p, how) for p, how in ch.items() if p not in allowed)
        if dumping and tgt_abs:
            # the property fixes what must be IN the target directory after a dump, not that nothing else may appear there:
            # additional NEW files under the target (a lock, a backup, a manifest) are counted, not reported
            inside = os.path.relpath(tgt_abs, root) + "/"
            extra = [(p, how) for p, how in unexpected if p.startswith(inside) and how in ("created", "removed")]
            if extra:
                stats["extra_new_files_in_target"] += len(extra)
                unexpected = [x for x in unexpected if x not in extra]
        if unexpected and not is_cli:
            # through the API, files that appear besides the dump (a parser.out in the working directory, a log) are C14's
            # "creates no files" business, not a disagreement between entry points: counted
            stray = [(p, how) for p, how in unexpected if how == "created"]
            if stray:
                stats["files_without_dump_request_api"] += len(stray)
                unexpected = [x for x in unexpected if x not in stray]
        if unexpected and not dumping and not is_cli:
            # an API call without a dump request that leaves files behind breaks C14's "creates no files" clause, not the
            # agreement between entry points that C19 is about (only the command's --no-dump is named here): counted
            stats["files_without_dump_request_api"] += len(unexpected)
            unexpected = []
        if not dumping or ok_return or relaxed or outcome[0] == "exc":
            if unexpected:
                viol.append({"oracle": "unexpected_files", "observed": unexpected[:10],
                             "expected": "only %s" % sorted(allowed)})
        stats["conservation_checked"] += 1
        return viol, kind + (":fault" if io_fault_fired else "") + (":relaxed" if relaxed else "")

    def _judge_dir(self, root, op, outcome, stdout, ch, tgt_abs, must, opt, clean, io_fault_fired, dumping, stats, before):
        viol = []
        blocked = dumping and _path_blocked(tgt_abs, before, root)
        if blocked:
            stats["blocked_targets"] += 1
        relaxed = (bool(io_fault_fired) or blocked) and outcome[0] == "exc" and isinstance(outcome[1], OSError)
        if relaxed:
            stats["relaxed_ops"] += 1
        allowed = set()
        if dumping:
            for b in opt:
                allowed.add(os.path.relpath(os.path.join(tgt_abs, b + "_schema.json"), root))
            p = tgt_abs
            while p and p != root and len(p) > len(root):
                allowed.add(os.path.relpath(p, root) + "/")
                p = os.path.dirname(p)
        unexpected = sorted((p, how) for p, how in ch.items() if p not in allowed)
        if dumping and tgt_abs:
            inside = os.path.relpath(tgt_abs, root) + "/"
            extra = [(p, how) for p, how in unexpected if p.startswith(inside) and how in ("created", "removed")]
            if extra:
                stats["extra_new_files_in_target"] += len(extra)
                unexpected = [x for x in unexpected if x not in extra]
        if unexpected:
            viol.append({"oracle": "unexpected_files", "observed": unexpected[:10], "expected": "subset of %s" % sorted(allowed)[:12]})
        stats["conservation_checked"] += 1
        if relaxed or not clean:
            return viol
        if outcome[0] == "exc" and not isinstance(outcome[1], SystemExit):
            viol.append({"oracle": "cli_exception", "expected": "normal completion", "observed": repr(outcome[1])[:300],
                         "fault_fired": bool(io_fault_fired)})
            return viol
        if dumping:
            for b, vals in sorted(must.items()):
                p = os.path.join(tgt_abs, b + "_schema.json")
                stats["dumps_checked"] += 1
                stats["dir_dumps_checked"] += 1
                accept = [json_value(v) for v in vals] + [json_value(v) for v in opt.get(b, [])]
                if not os.path.isfile(p):
                    viol.append({"oracle": "dump_missing", "expected": os.path.relpath(p, root), "observed": sorted(ch.items())[:10]})
                    continue
                try:
                    with open(p) as f:
                        data = json.load(f)
                except ValueError as e:
                    viol.append({"oracle": "dump_content", "path": os.path.relpath(p, root), "expected": "complete JSON",
                                 "observed": "not JSON: %s" % e})
                    continue
                if not any(data == a for a in accept):
                    viol.append({"oracle": "dump_content", "path": os.path.relpath(p, root),
                                 "expected": core.short(accept[0], 400), "observed": core.short(data, 400)})
            # optional-only files, when written, must hold one of their acceptable values
            for b, vals in sorted(opt.items()):
                if b in must:
                    continue
                p = os.path.join(tgt_abs, b + "_schema.json")
                rel = os.path.relpath(p, root)
                if rel in ch and os.path.isfile(p):
                    try:
                        with open(p) as f:
                            data = json.load(f)
                        if not any(data == json_value(a) for a in vals):
                            viol.append({"oracle": "dump_content", "path": rel, "expected": core.short(json_value(vals[0]), 300),
                                         "observed": core.short(data, 300)})
                    except ValueError as e:
                        viol.append({"oracle": "dump_content", "path": rel, "expected": "complete JSON", "observed": str(e)})
        if (op.get("v") or op.get("no_dump")) and must:
            stats["stdout_checked"] += 1
            vals = [v for vs in must.values() for v in vs]
            if not all(_stdout_contains(stdout, v) for v in vals):
                viol.append({"oracle": "cli_stdout", "expected": "every processed file's result printed", "observed": stdout[:300]})
        return viol

    def _cli_inprocess(self, argv, plan):
        old_argv, old_out = sys.argv, sys.stdout
        buf = io.StringIO()
        sys.argv, sys.stdout = list(argv), buf
        seams.HOOKS.io = plan
        seams.HOOKS.sys = plan.on_sys
        try:
            self.cli.main()
            outcome = ["ok", None]
        except BaseException as e:  # noqa
            outcome = ["exc", e]
        finally:
            seams.HOOKS.io = None
            seams.HOOKS.sys = None
            sys.argv, sys.stdout = old_argv, old_out
        return outcome, buf.getvalue()

    def _cli_subprocess(self, argv):
        code = ("import sys, logging; sys.path.insert(0, %r); logging.disable(logging.CRITICAL); "
                "from simple_ddl_parser.cli import main; sys.argv = %r; main()" % (self.tree, list(argv)))
        r = subprocess.run([sys.executable, "-c", code], stdout=subprocess.PIPE, stderr=subprocess.PIPE, text=True,
                           timeout=120, env=core.worker_env(os.environ.get("PYTHONHASHSEED", "0")))
        if r.returncode != 0:
            last = (r.stderr.strip().splitlines() or ["?"])[-1]
            name = last.split(":")[0].split(".")[-1]
            exc = _NamedExc(name, last)
            return ["exc", exc], r.stdout
        return ["ok", None], r.stdout


class _NamedExc(Exception):
    """Stand-in for an exception that ended a CLI subprocess (only its type name is known)."""

    def __new__(cls, name, text):
        import builtins
        base = getattr(builtins, str(name), None)
        if not (isinstance(base, type) and issubclass(base, Exception)):
            base = Exception
        # keep the family: an OSError subclass that ended the subprocess must still count as an OSError (the oracle
        # relaxes only for OSErrors under an injected / environmental I/O fault)
        return type(str(name) or "Unknown", (base,), {"__init__": lambda self, *a: Exception.__init__(self, *a)})(text)


def _path_blocked(tgt_abs, before, root):
    """A regular file sits at the target path or at one of its ancestors (environment fault)."""
    p = tgt_abs
    while p and len(p) > len(root):
        if os.path.relpath(p, root) in before:       # files are keyed without trailing slash
            return True
        p = os.path.dirname(p)
    return False


def _name_class(name):
    parts = name.split(".")
    if len(parts) == 1:
        return "noext"
    if len(parts) == 2:
        if parts[1] == "":
            return "trailingdot"
        return "single:" + (parts[1] if parts[1] in EXTS else "otherext")
    return "multidot"


def _unc(c):
    """Inverse of core.canon for the value domain of results (tuples stay tuples)."""
    if c is None or isinstance(c, (bool, str)):
        return c
    tag = c[0]
    if tag == "i":
        return int(c[1])
    if tag == "f":
        return float(c[1])
    if tag == "l":
        return [_unc(v) for v in c[1:]]
    if tag == "t":
        return tuple(_unc(v) for v in c[1:])
    if tag == "d":
        return dict((_unc(json.loads(k)), _unc(v)) for k, v in c[1:])
    if tag == "set":
        return set(_unc(json.loads(v)) for v in c[1:])
    return c


def _stdout_shows(stdout, value):
    """stdout presents the result: as a Python literal (pprint) or as JSON."""
    s = stdout.strip()
    if not s:
        return False
    try:
        if ast.literal_eval(s) == value:
            return True
    except (ValueError, SyntaxError, MemoryError, RecursionError):
        pass
    try:
        if json.loads(s) == json_value(value):
            return True
    except ValueError:
        pass
    import pprint
    return pprint.pformat(value) in stdout or json.dumps(value) in stdout


def _stdout_contains(stdout, value):
    import pprint
    if pprint.pformat(value) in stdout:
        return True
    try:
        for ind in (None, 1, 2, 4):
            if json.dumps(value, indent=ind) in stdout:
                return True
    except (TypeError, ValueError):
        pass
    return False
