"""Fork-per-run isolation.

Every simulated run (and every shrink attempt, and every enumerated ordering) executes in a forked
child of the worker, so it starts from the same process state: package imported, one warm-up parser
built and run, no leftovers of earlier runs.  Without this a process-global defect (a module-level
cache, a class-level registry) makes a run's outcome depend on which seeds the worker happened to
execute before it, and the reported replay file would not reproduce.  Histories that *should* expose
such state are therefore generated inside one run (several objects, shared texts, follow-up scripts,
marathon histories), where they are explicit, replayable and shrinkable.

The worker is single-threaded when it forks (scheduler threads exist only inside the child)."""
import faulthandler
import os
import signal
import sys
import traceback

from reference import _read_msg, _write_msg

FH_LOG = None          # set by worker.py: file object for faulthandler output
DEFAULT_TIMEOUT = 150


def run_isolated(fn, ref=None, timeout=None):
    """fn() -> picklable result.  Returns the result; raises RuntimeError if the child died."""
    r, w = os.pipe()
    sys.stdout.flush()
    pid = os.fork()
    if pid == 0:
        code = 0
        try:
            os.close(r)
            # the parent's faulthandler watchdog thread does not exist in the child (touching
            # dump_traceback_later here would wait for it forever): bound the child with SIGALRM instead
            try:
                if FH_LOG is not None:
                    faulthandler.register(signal.SIGALRM, file=FH_LOG, all_threads=True, chain=True)
                else:
                    signal.signal(signal.SIGALRM, signal.SIG_DFL)
                signal.alarm(int(timeout or DEFAULT_TIMEOUT))
            except Exception:  # noqa
                pass
            if ref is not None:
                ref.new_entries = []
            try:
                res = fn()
                msg = ("ok", res, ref.new_entries if ref is not None else [])
            except BaseException:  # noqa
                msg = ("exc", traceback.format_exc(), [])
            _write_msg(w, msg)
        except BaseException:  # noqa
            code = 3
        finally:
            os._exit(code)
    os.close(w)
    try:
        msg = _read_msg(r)
    except EOFError:
        msg = None
    os.close(r)
    _, status = os.waitpid(pid, 0)
    if msg is None:
        raise RuntimeError("isolated run died without a result (wait status %s)" % status)
    if msg[0] == "exc":
        raise RuntimeError("isolated run raised:\n" + msg[1])
    if ref is not None:
        for k, v in msg[2]:
            ref.memo.setdefault(k, v)
    return msg[1]
