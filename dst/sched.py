"""Baton-passing deterministic scheduler over real threads.

Every task is a real threading.Thread running ordinary library code.  Exactly one thread holds
the baton.  A thread gives the baton up only at *decision points*:

  * labelled yield points (granularity O: task start / between ops; granularity S adds the
    seams inside the library: after_lex, after_yacc, run_entry, before_stmt, run_exit);
  * granularity L: additionally every `line` trace event in library / PLY frames.

At a decision point the *chooser* decides who runs next.  A chooser is either PRNG-backed (it
then records every decision that is not "keep running") or list-backed (replay / shrinking).
A decision is addressed by (task, that task's own decision-point counter): "when task T reaches
its n-th decision point hand the baton to U".  Addressing by the task's own counter keeps an
entry meaningful when other entries are removed by the shrinker.

Who runs is never left to the OS: one schedule is one execution."""
import sys
import threading

WATCHDOG_S = 60.0
_ACTIVE = None            # the Scheduler whose run() is in progress in this process (one at a time)
_LOCK_SEAM = {}


def _async_only_window(frame):
    import linecache
    src = linecache.getline(frame.f_code.co_filename, frame.f_lineno).strip()
    return src.startswith("with ") or src.startswith("async with ") or src == "try:" or src.startswith("try:  #")


class SimLock:
    """A lock the simulator owns.  Wraps a real Lock / RLock created by library code.  Uncontended, or used outside a
    simulated task, it behaves exactly like the real lock.  When a simulated task finds it held, the task does not block in
    the kernel (the holder is parked and would never release it): it tells the scheduler, which runs another task - a
    recorded decision like any other - and retries when it is scheduled again.  Who gets a contended lock is therefore
    decided by the schedule, never by the OS."""

    def __init__(self, real):
        self._real = real

    def acquire(self, blocking=True, timeout=-1):
        S = _ACTIVE
        task = S.current_task() if S is not None else None
        if task is None or task.done:
            return self._real.acquire(blocking, timeout)
        while True:
            if self._real.acquire(False):
                return True
            if not blocking:
                return False
            S.block_on(task, self)

    def release(self):
        self._real.release()
        S = _ACTIVE
        if S is not None:
            S.lock_released(self)

    def __enter__(self):
        self.acquire()
        return self

    def __exit__(self, *a):
        self.release()
        return False

    def locked(self):
        if self._real.acquire(False):
            self._real.release()
            return False
        return True


def install_lock_seam(library_prefix):
    """threading.Lock / threading.RLock called FROM LIBRARY CODE (a frame whose file lies under `library_prefix`) return
    SimLocks; every other caller (stdlib, PLY, the harness itself) gets the real thing.  Idempotent."""
    if _LOCK_SEAM:
        return
    real_lock, real_rlock = threading.Lock, threading.RLock

    def _from_library():
        f = sys._getframe(2)
        return f is not None and f.f_code.co_filename.startswith(library_prefix)

    def Lock(*a, **k):
        r = real_lock(*a, **k)
        return SimLock(r) if _from_library() else r

    def RLock(*a, **k):
        r = real_rlock(*a, **k)
        return SimLock(r) if _from_library() else r

    _LOCK_SEAM.update(Lock=real_lock, RLock=real_rlock)
    threading.Lock, threading.RLock = Lock, RLock


class SimCancel(BaseException):
    """Injected interruption of a call (like KeyboardInterrupt / task cancellation)."""


class Blocked(Exception):
    """The running task neither reached a decision point nor finished within the watchdog
    bound: it is blocked on a real lock held by a parked task.  Harness-level: INCONCLUSIVE."""


class Deadlock(Blocked):
    """Every live task waits for a lock created by library code that no runnable task can release: with real threads
    this schedule hangs for good.  Unlike a watchdog timeout (a real lock of the stdlib / harness held by a parked task)
    this is behaviour of the system under test."""


class Task:
    def __init__(self, tid, fn):
        self.tid = tid
        self.fn = fn
        self.sem = threading.Semaphore(0)
        self.done = False
        self.started = False
        self.blocked_on = None # SimLock this task waits for (not runnable until it is released)
        self.dp = 0            # own decision-point counter
        self.lines = 0         # own line-event counter (granularity L)
        self.error = None      # harness-level exception escaping the task body
        self.thread = None
        self.cancel_at_line = None


class PrngChooser:
    def __init__(self, rng, p_line=0.0, p_label=1.0, focus=None, p_focus=0.0):
        """focus: substring of a source path (e.g. "/output/", "parser.py"); line events in matching files
        pre-empt with probability p_focus instead of p_line.  A uniform per-line probability spends nearly
        all switches inside PLY's lexer / LR loop (99% of the lines executed, all per-object state); a
        per-run focus file (swarm style) puts dense pre-emption where short check-then-use windows on
        shared state would be."""
        self.rng = rng
        self.p_line = p_line
        self.p_label = p_label
        self.focus = focus
        self.p_focus = p_focus
        self._is_focus = {}
        self.recorded = []      # [tid, dp, next_tid]

    def at_label(self, cur, dp, runnable):
        # runnable: sorted list of tids (includes cur if cur can continue)
        pick = runnable[self.rng.randrange(len(runnable))]
        if cur is None or pick != cur:
            self.recorded.append([cur, dp, pick])
        return pick

    def at_line(self, cur, dp, others, filename=None):
        p = self.p_line
        if self.focus is not None and filename is not None:
            f = self._is_focus.get(filename)
            if f is None:
                f = self._is_focus[filename] = self.focus in filename
            if f:
                p = self.p_focus
        if not others or self.rng.random() >= p:
            return cur
        pick = others[self.rng.randrange(len(others))]
        self.recorded.append([cur, dp, pick])
        return pick


class PctChooser:
    """PCT-style schedules (Burckhardt et al., "A randomized scheduler with probabilistic guarantees of finding bugs"):
    tasks get random priorities, the highest-priority runnable task always runs, and at d pre-drawn change points
    (the n-th traced line event of a task) the running task drops to the lowest priority.  The result is a schedule with
    very few context switches in which one task is suspended at a random line of the focus file while the others run long
    stretches - the shape an atomicity violation needs, and one that per-line coin flips almost never produce because the
    other task is itself pre-empted long before it reaches the conflicting code.  Change-point indexes are drawn
    log-uniformly in [1, kmax] (the number of traced lines per task is unknown in advance)."""

    def __init__(self, rng, tids, d=1, kmax=4000):
        import math
        self.prio = list(tids)
        rng.shuffle(self.prio)
        self.points = {}
        for t in tids:
            self.points[t] = set(int(math.exp(rng.uniform(0.0, math.log(kmax)))) for _ in range(d))
        self.count = dict((t, 0) for t in tids)
        self.recorded = []

    def _best(self, candidates):
        for t in self.prio:
            if t in candidates:
                return t
        return candidates[0]

    def at_label(self, cur, dp, runnable):
        if cur in runnable:
            return cur
        pick = self._best(runnable)
        self.recorded.append([cur, dp, pick])
        return pick

    def at_line(self, cur, dp, others, filename=None):
        self.count[cur] = self.count.get(cur, 0) + 1
        if others and self.count[cur] in self.points.get(cur, ()):
            self.prio.remove(cur)
            self.prio.append(cur)
            pick = self._best(others)
            self.recorded.append([cur, dp, pick])
            return pick
        return cur


class ListChooser:
    """Replay: explicit decisions; anything not listed means 'keep running' (or, when the
    current task cannot continue, the lowest runnable task)."""

    def __init__(self, decisions):
        self.map = {}
        for cur, dp, nxt in decisions:
            self.map[(cur, dp)] = nxt
        self.recorded = [list(d) for d in decisions]
        self.used = 0

    def at_label(self, cur, dp, runnable):
        nxt = self.map.get((cur, dp))
        if nxt is not None and nxt in runnable:
            self.used += 1
            return nxt
        if cur is not None and cur in runnable:
            return cur
        return runnable[0]

    def at_line(self, cur, dp, others, filename=None):
        nxt = self.map.get((cur, dp))
        if nxt is not None and nxt in others:
            self.used += 1
            return nxt
        return cur


class Scheduler:
    def __init__(self, chooser, labels, trace_prefixes=None, trace_exclude=(), on_event=None, trace_contains=None):
        """labels: set of label names that are decision points in this run.
        trace_prefixes: tuple of filename prefixes whose frames get line-level pre-emption."""
        self.chooser = chooser
        self.labels = set(labels)
        self.trace_prefixes = tuple(trace_prefixes) if trace_prefixes else None
        self.trace_exclude = tuple(trace_exclude)
        self.trace_contains = trace_contains        # only frames of files whose path contains this get line events
        self.tasks = {}
        self.sem = threading.Semaphore(0)
        self.current = None
        self.switches = 0
        self.label_points = 0
        self.line_points = 0
        self.on_event = on_event or (lambda *a: None)
        self.lock_waits = 0
        self.deadlock = False
        self._pending = None    # tid chosen by a task at a decision point
        self.yield_trace = []   # [(tid, label)] at labelled points (for distinctness measure)
        self._code_cache = {}

    # ---- API for the world
    def add_task(self, tid, fn):
        t = Task(tid, fn)
        self.tasks[tid] = t
        return t

    def current_task(self):
        th = threading.current_thread()
        return getattr(th, "sim_task", None)

    def yield_point(self, label):
        """Called from library seams / task bodies on a task thread.  No-op elsewhere."""
        task = self.current_task()
        if task is None or task.done:
            return
        if label not in self.labels:
            return
        self.label_points += 1
        self.yield_trace.append((task.tid, label))
        task.dp += 1
        runnable = self._runnable()
        nxt = self.chooser.at_label(task.tid, task.dp, runnable)
        if nxt != task.tid:
            self._hand_over(task, nxt)

    # ---- internals
    def _runnable(self):
        return sorted(t.tid for t in self.tasks.values() if not t.done and t.blocked_on is None)

    # ---- simulated locks
    def block_on(self, task, lock):
        """`task` found `lock` held by a parked task: a decision point at which somebody else must run."""
        self.lock_waits += 1
        task.blocked_on = lock
        task.dp += 1
        runnable = self._runnable()
        if not runnable:
            # every live task waits for a lock: a deadlock of the system under test (or of the harness)
            self.deadlock = True
            self._pending = None
            self.sem.release()
            task.sem.acquire()
            return
        nxt = self.chooser.at_label(task.tid, task.dp, runnable)
        self._hand_over(task, nxt)

    def lock_released(self, lock):
        for t in self.tasks.values():
            if t.blocked_on is lock:
                t.blocked_on = None

    def _hand_over(self, task, nxt):
        self.switches += 1
        self._pending = nxt
        self.sem.release()
        task.sem.acquire()

    def _want_trace(self, filename):
        r = self._code_cache.get(filename)
        if r is None:
            r = filename.startswith(self.trace_prefixes) and not filename.endswith(self.trace_exclude)
            if r and self.trace_contains is not None:
                r = self.trace_contains in filename
            self._code_cache[filename] = r
        return r

    def _global_trace(self, frame, event, arg):
        if event == "call" and self._want_trace(frame.f_code.co_filename):
            return self._local_trace
        return None

    def _local_trace(self, frame, event, arg):
        if event != "line":
            return self._local_trace
        task = self.current_task()
        if task is None or task.done:
            return self._local_trace
        self.line_points += 1
        task.lines += 1
        task.dp += 1
        hit = False
        if task.cancel_at_line is not None:
            cf = getattr(task, "cancel_focus", None)
            if cf is None:
                hit = task.lines == task.cancel_at_line
            elif cf in frame.f_code.co_filename:
                # the n-th line executed inside the focus file(s): lands the fault in code that runs late or rarely
                # (output formatting, a dialect mixin) without having to guess its distance from the start of the call
                task.focus_lines = getattr(task, "focus_lines", 0) + 1
                hit = task.focus_lines == task.cancel_at_line
        if hit and _async_only_window(frame):
            # a `with` line (its exit event precedes the call of __exit__) or a `try:` line right after an acquire(): only
            # an asynchronous signal landing in a one-instruction window could fail there, and the standard locking idioms
            # do not survive that by design - the fault moves on to the next line
            hit = False
            if getattr(task, "cancel_focus", None) is None:
                task.cancel_at_line += 1
            else:
                task.focus_lines -= 1
        if hit:
            task.cancel_at_line = None
            self.on_event("cancel_line", task.tid, task.lines)
            exc = getattr(task, "cancel_exc", None)
            if exc is not None:
                # a failing allocation / exhausted stack at this line: an ordinary Exception, which library code may
                # catch (SimCancel, like KeyboardInterrupt, passes through `except Exception`)
                task.cancel_exc = None
                raise exc("injected at line %d" % task.lines)
            raise SimCancel("line %d" % task.lines)
        others = [t for t in self._runnable() if t != task.tid]
        nxt = self.chooser.at_line(task.tid, task.dp, others, frame.f_code.co_filename)
        if nxt != task.tid:
            self._hand_over(task, nxt)
        return self._local_trace

    def _thread_main(self, task):
        threading.current_thread().sim_task = task
        task.sem.acquire()
        task.started = True
        if self.trace_prefixes:
            sys.settrace(self._global_trace)
        try:
            task.fn(task)
        except BaseException as e:  # noqa  harness-level: task bodies catch library exceptions
            task.error = e
        finally:
            sys.settrace(None)
            task.done = True
            self.sem.release()

    def run(self):
        global _ACTIVE
        _ACTIVE = self
        try:
            self._run()
        finally:
            _ACTIVE = None

    def _run(self):
        for t in self.tasks.values():
            t.thread = threading.Thread(target=self._thread_main, args=(t,), daemon=True,
                                        name="sim-%s" % t.tid)
            t.thread.start()
        cur = None
        while True:
            runnable = self._runnable()
            if not runnable:
                if self.deadlock or any(not t.done for t in self.tasks.values()):
                    raise Deadlock("every live task waits for a library lock: " +
                                   ", ".join("task %s" % t.tid for t in self.tasks.values() if not t.done))
                break
            if self._pending is not None and self._pending in runnable:
                nxt = self._pending
            else:
                # a task finished (or start): a decision point addressed by (finished tid, "end")
                nxt = self.chooser.at_label(None if cur is None else "%s:end" % cur, 0, runnable)
            self._pending = None
            cur = nxt
            self.current = nxt
            self.tasks[nxt].sem.release()
            if not self.sem.acquire(timeout=WATCHDOG_S):
                raise Blocked("task %s did not reach a decision point within %.0fs" % (nxt, WATCHDOG_S))
        for t in self.tasks.values():
            t.thread.join(timeout=5)
        for t in self.tasks.values():
            if t.error is not None:
                raise t.error
