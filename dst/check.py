#!/venv/bin/python
"""check.py <C14|C15|C19|C20> <quick|thorough>     run the check, write evidence/<id>.json
   check.py --replay <file>                        re-execute a replay file in a fresh interpreter

Exit 0: the property held on everything explored.  Exit 1 + `VIOLATION property=<id> replay=<path>`:
a violation not listed in known_findings.txt.  Exit 2: harness error / inconclusive."""
import collections
import json
import os
import sys
import time

HERE = os.path.dirname(os.path.abspath(__file__))
sys.path.insert(0, HERE)
import core      # noqa: E402
import runner    # noqa: E402

NW = int(os.environ.get("VERIF_WORKERS", "16"))
MAX_REPORTS = 3


def budget(tier, default_quick, default_thorough=600):
    v = os.environ.get("VERIF_BUDGET_S")
    if v:
        return float(v)
    return default_quick if tier == "quick" else default_thorough


def seeds_from(base, offset=0):
    i = 0
    while True:
        yield base * 1000003 + offset + i
        i += 1


class Agg:
    def __init__(self):
        self.evals = 0
        self.stats = collections.Counter()
        self.distinct = set()
        self.distinct_nontrivial = set()
        self.samples = []
        self.inconclusive = 0
        self.errors = []
        self.digests = {}            # (group, seed) -> (ops_digest, digest)
        self.events = 0

    def add(self, group, job, res, nontrivial, key):
        self.evals += 1
        for k, v in (res.get("stats") or {}).items():
            if isinstance(v, (int, float)):
                self.stats[k] += v
        self.distinct.add(key)
        if nontrivial:
            self.distinct_nontrivial.add(key)
        self.events += res.get("nevents", 0)
        if "seed" in job:
            self.digests[(group, job["seed"])] = (res.get("ops_digest"), res.get("digest"))


def cross_group_check(agg, report, what):
    """Same seed under different hash seeds / interpreters: the decided part of the log must be
    identical (else the harness is nondeterministic: exit 2); if the observed part differs, the
    library's output depends on the process / hash seed."""
    by_seed = collections.defaultdict(dict)
    for (g, s), d in agg.digests.items():
        by_seed[s][g] = d
    compared = 0
    lib_mismatch = []
    for s, gd in sorted(by_seed.items()):
        if len(gd) < 2:
            continue
        compared += 1
        ops = set(d[0] for d in gd.values())
        full = set(d[1] for d in gd.values())
        if len(ops) > 1:
            report.harness_errors.append("%s: seed %d generated different histories in different interpreters" % (what, s))
        elif len(full) > 1:
            lib_mismatch.append(s)
    return compared, lib_mismatch


# ============================================================================= C14 / C15
def run_parsers(prop, tier):
    t0 = time.monotonic()
    base = core.base_seed()
    wall = budget(tier, 75)
    scratch = core.Scratch(NW + 0)
    report = runner.Report(prop)
    agg = Agg()
    try:
        if tier == "quick":
            groups = {"A": [0] * (NW - 4), "B": [1] * 2, "C": [4242] * 2}
            n_cross = 24 if prop == "C14" else 16
            n_main = int(os.environ.get("VERIF_RUNS", "100000"))
        else:
            groups = {"A": [0] * (NW - 6), "B": [1] * 2, "C": [4242] * 2, "D": [base % 1000 + 7] * 2}
            n_cross = 200
            n_main = int(os.environ.get("VERIF_RUNS", "100000000"))
        pool = runner.Pool(scratch, "parsers", groups)
        try:
            deadline = t0 + wall
            jobs = {}
            enum_jobs = []
            if prop == "C15":
                # complete enumeration of op orderings for k = 2, 3 over workload tuples
                n_tuples = 12 if tier == "quick" else 60
                for j in range(n_tuples):
                    enum_jobs.append({"cmd": "custom", "method": "enum_c15",
                                      "args": {"seed": base * 1000003 + j, "k": 2 + (j % 2)}, "id": "enum%d" % j, "must": True,
                                      "timeout": 600})

            if prop == "C14":
                # fault enumeration: the first run() of a process interrupted at the n-th line inside each part of the library
                nparts = 16
                for j in range(nparts):
                    enum_jobs.append({"cmd": "custom", "method": "sweep_first_use",
                                      "args": {"seed": base, "part": j, "nparts": nparts, "full": tier != "quick"}, "id": "firstuse%d" % j, "must": True,
                                      "timeout": 600})

            def main_jobs():
                gen = seeds_from(base, n_cross)
                for i in range(n_main):
                    s = next(gen)
                    yield {"cmd": "seed", "prop": prop, "seed": s, "tier": tier, "id": s,
                           "want_trace": i < 3, "timeout": 300}

            def cross_jobs(shrink_it=False):
                gen = seeds_from(base)
                for i in range(n_cross):
                    s = next(gen)
                    g = {"gran": "S" if i % 2 else "O"} if prop == "C15" else {}
                    yield {"cmd": "seed", "prop": prop, "seed": s, "tier": tier, "id": s, "gen": g,
                           "shrink": shrink_it, "timeout": 300}
            # group A runs the same first n_cross seeds with the same generation arguments first,
            # then continues with the open-ended stream
            def a_jobs():
                for e in enum_jobs:
                    yield e
                for j in cross_jobs(True):
                    yield j
                for j in main_jobs():
                    yield j
            jobs["A"] = a_jobs()
            for g in groups:
                if g != "A":
                    jobs[g] = cross_jobs()
            enum_info = {"tuples": 0, "orderings": 0, "exhaustive_k": []}
            ref_hashseeds = set()
            hs_of = {g: groups[g][0] for g in groups}

            def on_result(group, job, res):
                if res is None:
                    agg.inconclusive += 1
                    agg.errors.append("worker died on job %s" % job.get("id"))
                    return
                if res.get("status") == "error":
                    agg.errors.append(res.get("error", "?")[-1500:])
                    return
                if job["cmd"] == "custom":
                    enum_info["tuples"] += 1
                    enum_info["orderings"] += res.get("orderings", 0)
                    enum_info["exhaustive_k"].append(res.get("k"))
                    agg.evals += res.get("orderings", 0)
                    for k in res.get("keys", []):
                        agg.distinct.add(k)
                        agg.distinct_nontrivial.add(k)
                    for k, v in (res.get("stats") or {}).items():
                        agg.stats["enum_" + k] += v
                    for vres in res.get("violating", []):
                        report.add_violation(vres, hs_of[group], scratch, pool=pool)
                        if len(report.violations) >= MAX_REPORTS:
                            pool.stop = True
                    return
                if res.get("status") == "inconclusive":
                    agg.inconclusive += 1
                    return
                kinds = res.get("kinds") or []
                key = res.get("dkey")
                if res.get("ref_hashseed") is not None:
                    ref_hashseeds.add(res["ref_hashseed"])
                if prop == "C14":
                    st = res.get("stats", {})
                    nontrivial = st.get("reruns", 0) > 0 or st.get("objects", 0) > 1 or st.get("cancel_stmt_fired", 0) > 0
                else:
                    nontrivial = bool(res.get("nontrivial"))
                agg.add(group, job, res, nontrivial, key)
                if job.get("want_trace") and res.get("trace") and len(agg.samples) < 3:
                    agg.samples.append(_sample_of(res["trace"]))
                if res.get("status") == "violation" and group == "A":
                    report.add_violation(res, hs_of[group], scratch, pool=pool)
                    if len(report.violations) >= MAX_REPORTS:
                        pool.stop = True
            pool.run(jobs, on_result, deadline=deadline)
        finally:
            pool.close()
        compared, lib_mismatch = cross_group_check(agg, report, prop)
        for s in lib_mismatch:
            if prop == "C14":
                _report_hashseed_violation(report, scratch, prop, s, tier, groups)
            else:
                report.harness_errors.append("C15 seed %d: outcomes differ between hash seeds (C14 territory)" % s)
        wall_s = time.monotonic() - t0
        for e in agg.errors[:5]:
            report.harness_errors.append(e)
        min_ok = agg.evals >= (40 if tier == "quick" else 200) and agg.inconclusive * 5 <= max(agg.evals, 1)
        cov = {
            "evaluations": agg.evals,
            "distinct_nontrivial": len(agg.distinct_nontrivial),
            "distinct": len(agg.distinct),
            "samples": agg.samples or ["(no sample trace captured)"],
            "runs_per_hour": int(agg.evals / max(wall_s, 1e-6) * 3600),
            "seeds": {"base": base, "first": base * 1000003, "count_main_group": sum(1 for (g, s) in agg.digests if g == "A")},
            "logical_steps": {k: agg.stats[k] for k in sorted(agg.stats)},
            "events_logged": agg.events,
            "simulated_time": ("the library has no timers, sleeps or deadlines (measured: %d clock reads by library code); steps are logical. A simulated clock is "
                               "installed in every run and jumped %d times, %d simulated seconds in total (%.1f simulated years), so that a change "
                               "which makes a result depend on time is seen") % (agg.stats["clock_reads_by_library"], agg.stats["clock_jumps"], agg.stats["clock_jumped_s"],
                                                                                 agg.stats["clock_jumped_s"] / 31557600.0),
            "cross_interpreter": {"seeds_compared_across_hash_seeds": compared, "hash_seeds": sorted(set(sum(groups.values(), []))),
                                  "library_output_mismatches": len(lib_mismatch)},
            "inconclusive_runs": agg.inconclusive,
            "workers": NW,
            "tree_fingerprint": scratch.fingerprint,
            "table_cache_warmup": scratch.warm_info,
            "real_vs_stub": {"real": ["simple_ddl_parser (all of it, from /repo working tree copy)", "ply", "CPython threads / tmpfs I/O"],
                             "stub": ["log emission (logging.disable, stderr -> /dev/null)"]},
            "exhaustive": False,
        }
        if prop == "C14":
            cov["rule"] = ("one evaluation = one simulated history (2-9 ops, marathon arm 25-60: new / new with the same text and other flags / "
                           "new with a follow-up script for the previous object's tables / run / run with other kwargs / bad mode / dump / "
                           "parse_from_file, with cancel-before-statement-k, cancel-at-line-n and dump I/O faults) on successive "
                           "parser objects in one forked process image in which no parser existed before; every completed call compared "
                           "with the pristine-process reference and with a pristine process under another hash seed; "
                           "distinct = distinct (op-kind sequence incl. fired faults, workload sources); non-trivial = contains a re-run "
                           "on the same object, a second object, or a fired cancel")
            cov["first_use_interruption_sweep"] = {"cells": agg.stats["enum_first_use_cells"], "fault_fired_in": agg.stats["enum_first_use_fired"],
                                                   "rule": "first run() of a process interrupted at the n-th line (n = 1..24, every 4th to 120, every 16th to 400) executed inside each of 8 parts of the library (quick tier: the four parsing-side parts only up to n = 24), alternately as cancellation / MemoryError; then re-run, fresh object, two more runs - each judged against the pristine reference"}
            cov["faults_fired"] = {k: agg.stats[k] for k in ("cancel_stmt_fired", "cancel_line_fired", "alloc_fault_fired", "alloc_fault_swallowed", "dump_fault_fired", "clock_jumps", "env_flip_evaluations")}
            cov["sensing"] = {"clock_reads_by_library": agg.stats["clock_reads_by_library"], "clock_slept_s": agg.stats["clock_slept_s"],
                              "env_reads_by_library_in_other_process": agg.stats["env_reads_by_library"],
                              "env_dependent_outcomes": agg.stats["env_dependent_outcomes"],
                              "optional_modules_tried_and_not_found": sorted(k.split(":", 1)[1] for k in agg.stats if k.startswith("optional_import_missing:")),
                              "optional_modules_note": "modules the library tries to import and does not find in this sandbox; an environment that has them cannot be built offline and is NOT simulated",
                              "note": "every clock readable from Python (time.time/monotonic/perf_counter/sleep, datetime.now/today) is the simulator's; the other-environment reference runs years ahead, under application-configured logging, and re-evaluates a request with each environment variable flipped that library code read while answering it"}
            cov["probes"] = {k: agg.stats[k] for k in ("reruns", "mode_changes", "after_fault_checks", "cancel_in_multi", "exc_outcomes", "objects",
                                                       "refs", "refs_other_hashseed", "global_state_changed", "victims_run",
                                                       "marathon_runs", "reflag_objects", "followup_objects", "nodump_with_paths", "from_file_other_process", "results_scribbled", "runs_inside_handler")}
            cov["reference_hash_seeds"] = sorted(set(str(x) for x in ref_hashseeds))
        else:
            cov["rule"] = ("one evaluation = one schedule of 2-4 parser objects (construct, run, [run]) under granularity O (atomic ops; "
                           "all orderings enumerated for k=2,3 on a set of workload tuples), S (statement-level seams) or L (line-level "
                           "pre-emption, thorough tier); every run() compared with the pristine-process reference; distinct = distinct "
                           "yield trace (S/O) or switch-point signature (L); non-trivial = at least one context switch happened")
            cov["enumeration"] = enum_info
            cov["faults_fired"] = {"context_switches": agg.stats["switches"] + agg.stats["enum_switches"],
                                   "cancel_fired": agg.stats["cancel_fired"], "clock_jumps": agg.stats["clock_jumps"],
                                   "constructor_fault_tasks": agg.stats["doomed_ctor_tasks"], "constructor_fault_raised": agg.stats["doomed_ctor_raised"]}
            cov["sensing"] = {"clock_reads_by_library": agg.stats["clock_reads_by_library"], "clock_slept_s": agg.stats["clock_slept_s"]}
            cov["probes"] = {"ctor_during_other_run": agg.stats["ctor_during_other_run"], "exc_outcomes": agg.stats["exc_outcomes"],
                             "line_points": agg.stats["line_points"], "label_points": agg.stats["label_points"], "lock_waits": agg.stats["lock_waits"],
                             "then_objects_runs": agg.stats["then_objects_runs"], "marathon_runs": agg.stats["marathon_runs"],
                             "same_text_tasks": agg.stats["same_text_tasks"], "via_file_tasks": agg.stats["via_file_tasks"], "global_state_changed": agg.stats["global_state_changed"], "victims_run": agg.stats["victims_run"], "dumping_tasks": agg.stats["dumping_tasks"], "constructed_in_another_thread": agg.stats["ctor_elsewhere"], "followup_tasks": agg.stats["followup_tasks"],
                             "runs_by_granularity": {g: agg.stats["gran_" + g] for g in ("O", "S", "L")}, "pct_runs": agg.stats["pct_runs"],
                             "line_focus": {k[6:]: v for k, v in sorted(agg.stats.items()) if k.startswith("focus_")}}
        core.write_evidence(prop, tier, base, "exploration", cov, wall_s, len(report.violations),
                            ["reference = same tree in a pristine forked process (a semantic change of the grammar is invisible by design)",
                             "CPython line events are the finest pre-emption granularity simulated",
                             "log output, timing and object identity are not compared"])
        print("%s %s: %d evaluations (%d distinct non-trivial), %d inconclusive, %d violations, %.1fs"
              % (prop, tier, agg.evals, len(agg.distinct_nontrivial), agg.inconclusive, len(report.violations), wall_s), flush=True)
        return report.exit_code(min_ok)
    finally:
        scratch.close()


def _sample_of(trace):
    t = json.loads(json.dumps(trace))
    for lst in ("ops", "tasks"):
        for o in t.get(lst, []):
            for f in ("ddl", "text"):
                if f in o and isinstance(o[f], str) and len(o[f]) > 300:
                    o[f] = o[f][:300] + "...(%d chars)" % len(o[f])
    if len(t.get("schedule", [])) > 30:
        t["schedule"] = t["schedule"][:30] + ["...(%d decisions)" % len(t["schedule"])]
    return t


def _report_hashseed_violation(report, scratch, prop, seed, tier, groups):
    """Outcome of the same history differs between interpreters with different hash seeds."""
    res = {"status": "violation", "trace": {"world": "parsers", "prop": prop, "seed": seed, "tier": tier,
                                             "cross_hashseed": sorted(set(sum(groups.values(), [])))},
           "violations": [{"oracle": "hashseed_dependent", "observed": "event-log digests differ across PYTHONHASHSEED values"}]}
    report.add_violation(res, 0, scratch, verify=False)


# ============================================================================= main
def main(argv):
    if len(argv) >= 2 and argv[0] == "--replay":
        ok, res = runner.replay_file(argv[1])
        doc = json.load(open(argv[1]))
        if ok:
            print("VIOLATION property=%s replay=%s" % (doc["property"], argv[1]))
            print("  reproduced: oracle=%s %s" % (doc["oracle"], core.short(res["violations"][0], 400)))
            return 1
        print("NOT REPRODUCED: %s (status=%s)" % (argv[1], res.get("status")))
        return 0
    if len(argv) != 2 or argv[0] not in core.PROPS or argv[1] not in ("quick", "thorough"):
        print(__doc__)
        return 2
    prop, tier = argv
    if prop in ("C14", "C15"):
        return run_parsers(prop, tier)
    if prop == "C19":
        import check_files
        return check_files.run(tier)
    import check_tablecache
    return check_tablecache.run(tier)


if __name__ == "__main__":
    try:
        rc = main(sys.argv[1:])
    except Exception:  # noqa
        import traceback
        traceback.print_exc()
        print("HARNESS-ERROR: unhandled exception in coordinator", flush=True)
        rc = 2
    sys.exit(rc)
