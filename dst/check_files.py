"""C19 coordinator: fault enumeration sweep (entry point x target state x I/O fault) followed by
seeded operation sequences, fault-free and fault-injecting arms reported separately."""
import collections
import os
import time

import core
import runner
from check import Agg, NW, budget, seeds_from, cross_group_check, _sample_of


def run(tier):
    prop = "C19"
    t0 = time.monotonic()
    base = core.base_seed()
    wall = budget(tier, 75)
    scratch = core.Scratch(NW)
    report = runner.Report(prop)
    agg = Agg()
    cells = collections.Counter()
    sweep_info = {"cells": 0, "total_cells": 0}
    arms = collections.Counter()
    try:
        groups = {"A": [0] * (NW - 2), "B": [1], "C": [4242]}
        n_cross = 16 if tier == "quick" else 100
        pool = runner.Pool(scratch, "files", groups)
        hs_of = {g: groups[g][0] for g in groups}
        try:
            nparts = 28

            def a_jobs():
                for part in range(nparts):
                    yield {"cmd": "custom", "method": "sweep", "args": {"seed": base, "part": part, "nparts": nparts},
                           "id": "sweep%d" % part, "timeout": 600, "must": True}
                gen = seeds_from(base)
                i = 0
                while True:
                    s = next(gen)
                    yield {"cmd": "seed", "prop": prop, "seed": s, "tier": tier, "id": s, "want_trace": i < 3,
                           "timeout": 300}
                    i += 1

            def cross_jobs():
                gen = seeds_from(base)
                for i in range(n_cross):
                    s = next(gen)
                    yield {"cmd": "seed", "prop": prop, "seed": s, "tier": tier, "id": s, "shrink": False, "timeout": 300}

            def on_result(group, job, res):
                if res is None:
                    agg.inconclusive += 1
                    agg.errors.append("worker died on job %s" % job.get("id"))
                    return
                if res.get("status") == "error":
                    agg.errors.append(res.get("error", "?")[-1500:])
                    return
                if job["cmd"] == "custom":
                    sweep_info["cells"] += res.get("cells", 0)
                    sweep_info["total_cells"] = res.get("total_cells", 0)
                    agg.evals += res.get("cells", 0)
                    for k in res.get("keys", []):
                        agg.distinct.add("sweep:" + k)
                        agg.distinct_nontrivial.add("sweep:" + k)
                    for k, v in (res.get("stats") or {}).items():
                        agg.stats[k] += v
                    for vres in res.get("violating", []):
                        report.add_violation(vres, hs_of[group], scratch, pool=pool)
                    return
                agg.add(group, job, res, bool(res.get("nontrivial")), res.get("dkey"))
                if group == "A":
                    for c in res.get("cells", []):
                        cells[c] += 1
                    arms["fault_injecting" if (res.get("stats") or {}).get("faults_fired") or
                         any(k.startswith("env_") for k in (res.get("stats") or {})) else "fault_free"] += 1
                if job.get("want_trace") and res.get("trace") and len(agg.samples) < 3:
                    agg.samples.append(_sample_of(res["trace"]))
                if res.get("status") == "violation" and group == "A":
                    report.add_violation(res, hs_of[group], scratch, pool=pool)
                    if len(report.violations) >= report.max_reports:
                        pool.stop = True
            pool.run({"A": a_jobs(), "B": cross_jobs(), "C": cross_jobs()}, on_result, deadline=t0 + wall)
        finally:
            pool.close()
        compared, lib_mismatch = cross_group_check(agg, report, prop)
        for s in lib_mismatch:
            report.harness_errors.append("C19 seed %d: outcomes differ between hash seeds" % s)
        wall_s = time.monotonic() - t0
        for e in agg.errors[:5]:
            report.harness_errors.append(e)
        sweep_complete = sweep_info["total_cells"] > 0 and sweep_info["cells"] == sweep_info["total_cells"]
        if not sweep_complete:
            report.harness_errors.append("fault-enumeration sweep incomplete: %s" % sweep_info)
        min_ok = agg.evals >= 100 and agg.inconclusive * 5 <= max(agg.evals, 1)
        fault_counts = {k: v for k, v in sorted(agg.stats.items()) if k.startswith("fault_") or k.startswith("env_")}
        cov = {
            "evaluations": agg.evals,
            "distinct_nontrivial": len(agg.distinct_nontrivial),
            "distinct": len(agg.distinct),
            "rule": ("evaluations = sweep cells (entry point x target-directory state x I/O fault kind, each followed by a fault-free "
                     "repeat = heal check) + seeded op sequences (3-10 ops: put input / environment fault / parse_from_file / "
                     "run(dump=True) / sdp file / sdp directory / sdp missing path); distinct = distinct sets of "
                     "(op kind, name class, encoding, dump?, fault?) cells per sequence plus distinct sweep cells; non-trivial = at least "
                     "one dump was compared with the returned result or at least one fault fired"),
            "samples": agg.samples or ["(none)"],
            "sweep": dict(sweep_info, complete=sweep_complete,
                          axes="entry {api_file, api_dump, cli_file, cli_dir} x env {none, rm_target, mk_target, stale, torn, block} x "
                               "io {none, dump_open EACCES/ENOSPC, dump_write ENOSPC@k, makedirs EACCES/ENOSPC, input_open EIO/ENOENT/EACCES, listdir permuted}"),
            "arms": dict(arms),
            "faults_fired": fault_counts,
            "probes": {k: agg.stats[k] for k in ("dumps_checked", "dir_dumps_checked", "heal_checks", "returns_checked", "stdout_checked",
                                                 "conservation_checked", "relaxed_ops", "blocked_targets", "decode_errors",
                                                 "cli_subprocess", "dir_members", "inputs_crlf_or_cr", "api_refs", "symlink_inputs", "extra_new_files_in_target", "files_without_dump_request_api")},
            "cells_seen_in_sequences": len(cells),
            "runs_per_hour": int(agg.evals / max(wall_s, 1e-6) * 3600),
            "seeds": {"base": base, "first": base * 1000003, "count_main_group": sum(1 for (g, s) in agg.digests if g == "A")},
            "logical_steps": {"ops": agg.stats["ops"], "events_logged": agg.events},
            "simulated_time": "none: no timers in the library",
            "cross_interpreter": {"seeds_compared_across_hash_seeds": compared, "library_output_mismatches": len(lib_mismatch)},
            "inconclusive_runs": agg.inconclusive,
            "real_vs_stub": {"real": ["simple_ddl_parser incl. cli.main() in-process", "ply", "CPython file I/O on a private tmpfs tree",
                                      "real sdp subprocess for a sample (thorough tier)"],
                             "stub": ["EACCES/ENOSPC/EIO/ENOENT raised by the open/os seam rather than by the kernel",
                                      "log emission"]},
            "exhaustive": False,
            "tree_fingerprint": scratch.fingerprint,
        }
        core.write_evidence(prop, tier, base, "fault_enumeration", cov, wall_s, len(report.violations),
                            ["reference = the in-memory API evaluated in a forked child from the same process state the entry point starts in, on the text decoded by the harness with the same codec (text mode, universal newlines)",
                             "'<input base name>' = text before the first dot of the file name (as the property's anchors state); directory mode tolerates either rule for multi-dot names, which the code skips",
                             "directory mode: only single-dot .sql/.ddl/.hql/.bql members must be processed; others may be",
                             "under an injected or environmental OSError only conservation of other paths is demanded for that op"])
        print("C19 %s: %d evaluations (%d sweep cells of %d, %d distinct non-trivial), %d inconclusive, %d violations, %.1fs"
              % (tier, agg.evals, sweep_info["cells"], sweep_info["total_cells"], len(agg.distinct_nontrivial),
                 agg.inconclusive, len(report.violations), wall_s), flush=True)
        return report.exit_code(min_ok)
    finally:
        scratch.close()
