#!/venv/bin/python
"""Helper run as a subprocess on a private tree: generate LALR tables with PLY.

  tablegen.py <tree> fresh <outdir>      tables of the grammar declared in the source -> <outdir>/parsetab.py
  tablegen.py <tree> foreign <outdir>    a legitimate PLY table of a *perturbed* grammar (one alternative removed
                                         from a production), carrying that grammar's signature: plausible file,
                                         wrong actions.  Used as the 'stale signature, foreign tables' cache state.
Prints one JSON line: {"signature_sha": ..., "perturbed": <rule name or null>}"""
import hashlib
import json
import logging
import os
import sys


def main():
    tree, mode, outdir = sys.argv[1], sys.argv[2], sys.argv[3]
    sys.path.insert(0, tree)
    logging.disable(logging.CRITICAL)
    sys.stderr = open(os.devnull, "w")
    os.makedirs(outdir, exist_ok=True)
    from ply import yacc
    import simple_ddl_parser
    from simple_ddl_parser import DDLParser
    assert os.path.abspath(simple_ddl_parser.__file__).startswith(os.path.abspath(tree))
    base = DDLParser("")           # a normal object (may rewrite the tree's own cache: callers use a throw-away tree)
    perturbed = None
    if mode == "lextab":
        # an optimized-mode LEXER table of a perturbed lexer (STRING_BASE accepts fewer characters), as an older release
        # that cached its lexer would have left in the package directory.  The unchanged library never reads such a file.
        from ply import lex
        orig = DDLParser.t_STRING_BASE

        def t_STRING_BASE(self, t):
            return orig(self, t)
        t_STRING_BASE.__doc__ = r"((\')([a-zA-Z_,`0-9:><\=\-\+\~\%$\!(){}\[\]\/\\\"\#\*&^|?;]*)(\')){1}"
        t_STRING_BASE.__code__ = t_STRING_BASE.__code__.replace(co_firstlineno=orig.__code__.co_firstlineno, co_filename=orig.__code__.co_filename)
        Sub = type("OlderLexer", (DDLParser,), {"t_STRING_BASE": t_STRING_BASE})
        obj = Sub.__new__(Sub)
        obj.__dict__.update(base.__dict__)
        try:
            lex.lex(object=obj, optimize=True, lextab="lextab", outputdir=outdir, errorlog=lex.NullLogger())
        except Exception as e:  # noqa
            print(json.dumps({"error": "lextab generation failed: %r" % (e,)}))
            return 1
        ok = os.path.exists(os.path.join(outdir, "lextab.py"))
        print(json.dumps({"lextab": ok, "error": None if ok else "no lextab.py written"}))
        return 0 if ok else 1
    if mode == "fresh":
        obj = base
        yacc.yacc(module=obj, debug=False, write_tables=True, outputdir=outdir, tabmodule="vfresh_parsetab",
                  errorlog=yacc.NullLogger())
        os.replace(os.path.join(outdir, "vfresh_parsetab.py"), os.path.join(outdir, "parsetab.py"))
    else:
        real_sig = _signature(yacc, base)
        cands = []
        for name in sorted(dir(DDLParser)):
            if not name.startswith("p_") or name == "p_error":
                continue
            doc = getattr(DDLParser, name).__doc__ or ""
            alts = [a for a in doc.split("|")]
            if len(alts) >= 3:
                cands.append((name, doc))
        prefer = ["p_defcolumn", "p_expression_table", "p_expression_seq", "p_id"]
        cands.sort(key=lambda c: (prefer.index(c[0]) if c[0] in prefer else 99, c[0]))
        done = False
        for name, doc in cands:
            for drop in (13, 9, 4, 1):     # which alternative to remove (index into the '|' list; 13 of p_defcolumn = 'defcolumn null')
                alts = doc.split("|")
                if drop >= len(alts):
                    continue
                newdoc = "|".join(alts[:drop] + alts[drop + 1:])
                orig = getattr(DDLParser, name)

                def make(orig=orig, newdoc=newdoc):
                    def f(self, p):
                        return orig(self, p)
                    f.__doc__ = newdoc
                    f.__name__ = orig.__name__
                    f.__qualname__ = orig.__qualname__
                    f.__code__ = f.__code__.replace(co_firstlineno=orig.__code__.co_firstlineno,
                                                    co_filename=orig.__code__.co_filename)
                    return f
                Sub = type("Perturbed", (DDLParser,), {name: make()})
                try:
                    obj = Sub.__new__(Sub)
                    obj.__dict__.update(base.__dict__)
                    yacc.yacc(module=obj, debug=False, write_tables=True, outputdir=outdir,
                              tabmodule="vforeign_parsetab", errorlog=yacc.NullLogger())
                except Exception:  # noqa
                    continue
                p = os.path.join(outdir, "vforeign_parsetab.py")
                if not os.path.exists(p):
                    continue
                ns = {}
                exec(compile(open(p).read(), p, "exec"), ns)
                if ns["_lr_signature"] != real_sig:
                    os.replace(p, os.path.join(outdir, "parsetab.py"))
                    perturbed = "%s minus alternative %d" % (name, drop)
                    done = True
                    break
            if done:
                break
        if not done:
            print(json.dumps({"error": "could not build a foreign table"}))
            return 1
    ns = {}
    p = os.path.join(outdir, "parsetab.py")
    exec(compile(open(p).read(), p, "exec"), ns)
    print(json.dumps({"signature_sha": hashlib.sha256(ns["_lr_signature"].encode()).hexdigest()[:16],
                      "perturbed": perturbed, "real_signature_sha":
                      hashlib.sha256(_signature(yacc, base).encode()).hexdigest()[:16]}))
    return 0


def _signature(yacc, obj):
    pdict = dict((k, getattr(obj, k)) for k in dir(obj))
    if "__file__" not in pdict:
        pdict["__file__"] = sys.modules[pdict["__module__"]].__file__
    pinfo = yacc.ParserReflect(pdict, log=yacc.NullLogger())
    pinfo.get_all()
    return pinfo.signature()


if __name__ == "__main__":
    sys.exit(main())
