"""Shared core of the deterministic simulator: seed derivation, canonical encoding, event log,
scratch trees, known findings, reporting, evidence.

Nothing here imports the library under test.  Nothing here reads a clock or draws randomness
except through `stream()`; wall-clock is read only by the coordinator for budgets and is never
recorded in an event log."""
import collections
import hashlib
import json
import os
import random
import shutil
import subprocess
import sys
import tempfile
import time

HERE = os.path.dirname(os.path.abspath(__file__))
VERIF = os.path.dirname(HERE)
REPO = os.environ.get("VERIF_REPO", "/repo")
PY = sys.executable
PROPS = ("C14", "C15", "C19", "C20")

ALT_HASHSEEDS = [1, 2, 3, 5, 7, 11, 4242, 31337, 99, 12345, 777, 2024, 65537, 424242, 8, 13, 0]

OUTPUT_MODES = ["sql", "mysql", "mssql", "oracle", "hql", "postgres", "redshift", "snowflake",
                "bigquery", "spark_sql", "databricks", "athena", "ibm_db2", "sqlite", "vertica"]


# ----------------------------------------------------------------------------- seeds / PRNG
def stream(seed, name):
    """Independent PRNG stream for (seed, name).  sha256-based: never hash() (per-process salt)."""
    h = hashlib.sha256(("%d:%s" % (seed, name)).encode()).digest()
    return random.Random(int.from_bytes(h[:8], "big"))


def base_seed():
    try:
        return int(os.environ.get("VERIF_SEED", "0"))
    except ValueError:
        return 0


# ----------------------------------------------------------------------------- canonical values
def canon(x):
    """Tagged, JSON-serialisable canonical form.  Equality of canon() <=> Python `==` on the
    value domain the library returns, except that bool != int (JSON-observable) is kept distinct.
    dict keys are sorted (dict == ignores order; order is observable only through json_dump /
    dump files, which are compared as text / parsed JSON separately)."""
    if x is None or isinstance(x, (bool, str)):
        return x
    if isinstance(x, int):
        return ["i", str(x)]
    if isinstance(x, float):
        return ["f", repr(x)]
    if isinstance(x, list):
        return ["l"] + [canon(v) for v in x]
    if isinstance(x, tuple):
        return ["t"] + [canon(v) for v in x]
    if isinstance(x, dict):
        items = [(json.dumps(canon(k), sort_keys=True), canon(v)) for k, v in x.items()]
        items.sort(key=lambda kv: kv[0])
        return ["d"] + [[k, v] for k, v in items]
    if isinstance(x, (set, frozenset)):
        return ["set"] + sorted(json.dumps(canon(v), sort_keys=True) for v in x)
    if isinstance(x, bytes):
        return ["b", x.hex()]
    return ["obj", type(x).__name__, repr(x)]


def cjson(x):
    return json.dumps(x, sort_keys=True, separators=(",", ":"), ensure_ascii=True)


def digest_of(x):
    return hashlib.sha256(cjson(x).encode()).hexdigest()


def outcome_of_exception(e):
    """Canonical outcome for a raising call.  Type always; message only for the library's own
    exception family (its text is a function of the input)."""
    names = [c.__name__ for c in type(e).__mro__]
    msg = str(e) if "SimpleDDLParserException" in names else None
    return ["exc", type(e).__name__, msg]


def short(x, n=160):
    s = x if isinstance(x, str) else cjson(x)
    return s if len(s) <= n else s[:n] + "...(%d chars)" % len(s)


def first_diff(a, b, path="$"):
    """Human-oriented pointer to the first difference between two canonical values."""
    if type(a) != type(b):
        return "%s: %s vs %s" % (path, short(a, 80), short(b, 80))
    if isinstance(a, list):
        if a and b and a[0] == "d" and b[0] == "d":
            da, db = dict((k, v) for k, v in a[1:]), dict((k, v) for k, v in b[1:])
            for k in sorted(set(da) | set(db)):
                if k not in da:
                    return "%s: key %s only on right (%s)" % (path, k, short(db[k], 60))
                if k not in db:
                    return "%s: key %s only on left (%s)" % (path, k, short(da[k], 60))
                if da[k] != db[k]:
                    return first_diff(da[k], db[k], path + "." + k.strip('"'))
            return None
        for i, (u, v) in enumerate(zip(a, b)):
            if u != v:
                return first_diff(u, v, "%s[%d]" % (path, i))
        if len(a) != len(b):
            return "%s: length %d vs %d" % (path, len(a), len(b))
        return None
    if a != b:
        return "%s: %s vs %s" % (path, short(a, 80), short(b, 80))
    return None


# ----------------------------------------------------------------------------- event log
class EventLog:
    """Append-only log of a simulated run.  `ops` events (the generated history: what the
    simulator decided) and `obs` events (what the system did) are digested separately so a
    cross-interpreter mismatch can be attributed to the harness (ops differ) or to the
    library (ops equal, observations differ)."""

    def __init__(self, keep=True):
        self.seq = 0
        self.events = [] if keep else None
        self._h_all = hashlib.sha256()
        self._h_ops = hashlib.sha256()

    def add(self, kind, decided=False, **fields):
        self.seq += 1
        ev = {"n": self.seq, "k": kind}
        ev.update(fields)
        line = cjson(ev).encode() + b"\n"
        self._h_all.update(line)
        if decided:
            self._h_ops.update(line)
        if self.events is not None:
            self.events.append(ev)
        return self.seq

    def digest(self):
        return self._h_all.hexdigest()

    def ops_digest(self):
        return self._h_ops.hexdigest()


# ----------------------------------------------------------------------------- scratch trees
def scratch_base():
    b = os.environ.get("VERIF_SCRATCH")
    if b:
        os.makedirs(b, exist_ok=True)
        return b
    if os.path.isdir("/dev/shm") and os.access("/dev/shm", os.W_OK):
        return "/dev/shm"
    return tempfile.gettempdir()


def _ignore(d, names):
    return [n for n in names if n == "__pycache__" or n.endswith(".pyc") or n == "parser.out"]


def tree_fingerprint(pkg_dir):
    h = hashlib.sha256()
    for root, dirs, files in os.walk(pkg_dir):
        dirs[:] = sorted(d for d in dirs if d != "__pycache__")
        for f in sorted(files):
            if f.endswith(".py"):
                p = os.path.join(root, f)
                h.update(os.path.relpath(p, pkg_dir).encode() + b"\0")
                with open(p, "rb") as fh:
                    h.update(fh.read())
    return h.hexdigest()[:16]


class Scratch:
    """A private scratch root holding one copy of /repo's *working tree* package per worker.
    Removed on close() / interpreter exit."""

    def __init__(self, nworkers, warm=True):
        self.root = tempfile.mkdtemp(prefix="sdp-dst-", dir=scratch_base())
        self.src = os.path.join(REPO, "simple_ddl_parser")
        if not os.path.isdir(self.src):
            raise RuntimeError("no package at %s" % self.src)
        self.fingerprint = tree_fingerprint(self.src)
        self.master = os.path.join(self.root, "master")
        os.makedirs(self.master)
        shutil.copytree(self.src, os.path.join(self.master, "simple_ddl_parser"), ignore=_ignore)
        # the file as found in the working tree, before any warm-up touches it
        self.parsetab_as_found = os.path.join(self.root, "parsetab_as_found.py")
        pt = os.path.join(self.master, "simple_ddl_parser", "parsetab.py")
        if os.path.exists(pt):
            shutil.copyfile(pt, self.parsetab_as_found)
        self.warm_info = None
        if warm:
            self.warm_info = self._warm(self.master)
        self.trees = []
        for i in range(nworkers):
            t = os.path.join(self.root, "w%02d" % i)
            os.makedirs(t)
            shutil.copytree(os.path.join(self.master, "simple_ddl_parser"),
                            os.path.join(t, "simple_ddl_parser"), ignore=_ignore)
            self.trees.append(t)

    @staticmethod
    def _warm(tree):
        """Let the library bring its own table cache up to date (its own regeneration path)."""
        code = ("import sys,logging,hashlib; sys.path.insert(0,%r); logging.disable(logging.CRITICAL)\n"
                "import simple_ddl_parser as m\n"
                "assert m.__file__.startswith(%r), m.__file__\n"
                "p=%r\n"
                "h=lambda: hashlib.sha256(open(p,'rb').read()).hexdigest() if __import__('os').path.exists(p) else None\n"
                "a=h(); m.DDLParser('create table t (a int);').run(); b=h()\n"
                "print('REWRITTEN' if a!=b else 'KEPT')\n") % (tree, tree, os.path.join(tree, "simple_ddl_parser", "parsetab.py"))
        r = subprocess.run([PY, "-c", code], stdout=subprocess.PIPE, stderr=subprocess.PIPE,
                           text=True, timeout=300, env=worker_env(0), cwd=tree)
        if r.returncode != 0:
            raise RuntimeError("warm-up of scratch tree failed (library does not import / construct):\n"
                               + r.stderr[-2000:])
        return r.stdout.strip().splitlines()[-1] if r.stdout.strip() else "?"

    def close(self):
        shutil.rmtree(self.root, ignore_errors=True)


def worker_env(hashseed, extra=None):
    env = dict(os.environ)
    env["PYTHONHASHSEED"] = str(hashseed)
    env["PYTHONDONTWRITEBYTECODE"] = "1"
    env.pop("PYTHONPATH", None)
    if extra:
        env.update(extra)
    return env


# ----------------------------------------------------------------------------- known findings
def load_known_findings():
    """known_findings.txt lines:
         open:  property=<id> key=<stable key> <free text>
         fixed: property=<id> <commit> <free text>
       Only `open:` lines suppress (and only the violation whose key matches)."""
    path = os.path.join(VERIF, "known_findings.txt")
    out = []
    if not os.path.exists(path):
        return out
    for line in open(path):
        line = line.strip()
        if not line or line.startswith("#"):
            continue
        if line.startswith("open:"):
            rest = line[5:].strip()
            parts = rest.split(None, 2)
            prop = parts[0].split("=", 1)[1]
            key = parts[1].split("=", 1)[1]
            out.append({"property": prop, "key": key, "text": parts[2] if len(parts) > 2 else ""})
    return out


# ----------------------------------------------------------------------------- corpus
_CORPUS = None


def corpus():
    global _CORPUS
    if _CORPUS is None:
        with open(os.path.join(VERIF, "corpus", "regression.json")) as f:
            _CORPUS = json.load(f)
    return _CORPUS


# ----------------------------------------------------------------------------- evidence
def write_evidence(prop, tier, seed, level, coverage, wall_s, violations, assumptions):
    if os.environ.get("VERIF_NO_EVIDENCE"):      # sensitivity runs against scratch trees must not touch evidence/
        return None
    os.makedirs(os.path.join(VERIF, "evidence"), exist_ok=True)
    doc = {"property_id": prop, "tier": tier, "seed": seed, "level": level,
           "coverage": coverage, "assumptions": assumptions, "wall_s": round(wall_s, 2),
           "violations": violations}
    path = os.path.join(VERIF, "evidence", "%s.json" % prop)
    tmp = path + ".tmp"
    with open(tmp, "w") as f:
        json.dump(doc, f, indent=1, sort_keys=True)
    os.replace(tmp, path)
    return path


def now():
    return time.monotonic()
