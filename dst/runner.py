"""Coordinator-side machinery: worker pool (exec'ed interpreters under chosen hash seeds),
dynamic job distribution with hang detection, violation reporting / replay verification."""
import json
import os
import queue
import subprocess
import sys
import threading
import time

import core

WORKER = os.path.join(core.HERE, "worker.py")


class WorkerProc:
    def __init__(self, tree, world, workroot, hashseed, extra_env=None):
        self.tree, self.world, self.workroot, self.hashseed = tree, world, workroot, hashseed
        self.extra_env = extra_env
        self.proc = None
        self.start()

    def start(self):
        self.proc = subprocess.Popen([core.PY, WORKER, self.tree, self.world, self.workroot],
                                     stdin=subprocess.PIPE, stdout=subprocess.PIPE, stderr=subprocess.DEVNULL,
                                     env=core.worker_env(self.hashseed, self.extra_env), text=True, bufsize=1)
        line = self.proc.stdout.readline()
        if not line:
            raise RuntimeError("worker died during start-up (see %s/faulthandler.log)" % self.workroot)
        msg = json.loads(line)
        if not msg.get("ready"):
            raise RuntimeError("worker failed to start:\n" + msg.get("error", "?"))
        self.ref_hashseed = msg.get("ref_hashseed")

    def call(self, job):
        """Returns result dict, or None if the worker died (hang watchdog / crash)."""
        try:
            self.proc.stdin.write(json.dumps(job) + "\n")
            self.proc.stdin.flush()
            line = self.proc.stdout.readline()
        except (BrokenPipeError, OSError):
            line = ""
        if not line:
            try:
                self.proc.kill()
            except OSError:
                pass
            self.proc.wait()
            return None
        return json.loads(line)

    def close(self):
        try:
            self.proc.stdin.write(json.dumps({"cmd": "quit"}) + "\n")
            self.proc.stdin.flush()
            self.proc.stdin.close()
            self.proc.wait(timeout=10)
        except Exception:  # noqa
            try:
                self.proc.kill()
                self.proc.wait()
            except Exception:  # noqa
                pass


class Pool:
    """groups: {name: [hashseed per worker]}.  Jobs are (group, job dict)."""

    def __init__(self, scratch, world, groups, extra_env=None):
        self.scratch = scratch
        self.workers = {}
        idx = 0
        errors = []
        lock = threading.Lock()

        def boot(g, i, hs):
            try:
                w = WorkerProc(scratch.trees[i], world, os.path.join(scratch.root, "work%02d" % i), hs,
                               dict(extra_env or {}, VERIF_WORKER_INDEX=str(i)))
                with lock:
                    self.workers.setdefault(g, []).append(w)
            except Exception as e:  # noqa
                with lock:
                    errors.append(str(e))
        threads = []
        for g in sorted(groups):
            for hs in groups[g]:
                th = threading.Thread(target=boot, args=(g, idx, hs))
                th.start()
                threads.append(th)
                idx += 1
        for th in threads:
            th.join()
        if errors:
            self.close()
            raise RuntimeError("worker start-up failed: " + errors[0])
        self.dead_jobs = 0
        self.stop = False
        self.worker_of_thread = {}

    def originating_worker(self):
        """The (now idle) worker whose result the calling on_result() is handling."""
        return self.worker_of_thread.get(threading.get_ident())

    def run(self, jobs_by_group, on_result, deadline=None):
        """jobs_by_group: {group: iterator of job dicts}.  Stops pulling new jobs at `deadline`
        (monotonic seconds).  on_result(group, job, result or None) is called under a lock."""
        lock = threading.Lock()
        iters = {g: iter(j) for g, j in jobs_by_group.items()}
        ilock = threading.Lock()
        exhausted_must = set()

        def nxt(g):
            # jobs flagged "must" (enumeration sweeps, cross-interpreter comparisons) are never cut by the
            # deadline: generators yield them first; the deadline only ends the open-ended seed stream
            with ilock:
                if self.stop:
                    return None
                late = deadline is not None and time.monotonic() > deadline
                if late and g in exhausted_must:
                    return None
                try:
                    job = next(iters[g])
                except (StopIteration, KeyError):
                    return None
                if late and not job.get("must"):
                    exhausted_must.add(g)
                    return None
                return job

        def loop(g, w):
            while True:
                job = nxt(g)
                if job is None:
                    return
                t_job = time.monotonic()
                res = w.call(job)
                if os.environ.get("VERIF_TIMING") and (time.monotonic() - t_job) > 3:
                    print("TIMING %-28s %.1fs" % (job.get("id"), time.monotonic() - t_job), flush=True)
                if res is None:
                    with lock:
                        self.dead_jobs += 1
                        on_result(g, job, None)
                    try:
                        w.start()
                    except Exception:  # noqa
                        return
                    continue
                with lock:
                    self.worker_of_thread[threading.get_ident()] = w
                    on_result(g, job, res)
        threads = []
        for g, ws in self.workers.items():
            for w in ws:
                th = threading.Thread(target=loop, args=(g, w))
                th.start()
                threads.append(th)
        for th in threads:
            th.join()

    def close(self):
        for ws in self.workers.values():
            for w in ws:
                w.close()


# ----------------------------------------------------------------------------- reporting
def violation_key(res):
    v = res["violations"][0]
    return "%s:%s" % (v["oracle"], core.digest_of(_essential(res["trace"]))[:12])


def _essential(trace):
    t = json.loads(json.dumps(trace))
    t.pop("seed", None)
    if "swarm" in t:
        t["swarm"] = {k: v for k, v in t["swarm"].items() if k in ("gran",)}
    for lst in ("ops", "tasks"):
        for o in t.get(lst, []):
            o.pop("src", None)
    return t


def write_replay(prop, res, hashseed, fingerprint):
    d = os.path.join(core.VERIF, "replays", prop)
    os.makedirs(d, exist_ok=True)
    v = res["violations"][0]
    doc = {"property": prop, "oracle": v["oracle"], "seed": res["trace"].get("seed"), "hashseed": hashseed,
           "key": violation_key(res), "violation": v, "all_violations": res["violations"],
           "trace": res["trace"], "shrunk": res.get("shrunk"), "tree_fingerprint": fingerprint,
           "ref_hashseed": res.get("ref_hashseed"), "ref_optimize": res.get("ref_optimize"),
           "events": res.get("events")}
    name = "%s-s%s-%s.json" % (prop, res["trace"].get("seed"), core.digest_of(_essential(res["trace"]))[:8])
    path = os.path.join(d, name)
    with open(path, "w") as f:
        json.dump(doc, f, indent=1, sort_keys=True)
    return path


WORLD_OF = {"C14": "parsers", "C15": "parsers", "C19": "files", "C20": "tablecache"}


def replay_file(path, scratch=None):
    """Re-execute the explicit trace of a replay file in a fresh worker interpreter under the
    recorded hash seed.  Returns (reproduced?, result)."""
    doc = json.load(open(path))
    own = scratch is None
    if own:
        scratch = core.Scratch(1)
    try:
        tree = scratch.trees[0]
        if doc["trace"].get("static"):
            # C20's static clause: compare the working tree's own table file with a fresh generation again
            import check_tablecache
            info, sv = check_tablecache.static_clause(scratch)
            return sv is not None, {"status": "violation" if sv else "ok", "violations": [sv] if sv else [], "static": info}
        if doc["trace"].get("cross_hashseed"):
            digs = {}
            for hs in doc["trace"]["cross_hashseed"]:
                w = WorkerProc(tree, WORLD_OF[doc["property"]], os.path.join(scratch.root, "replay-work"), hs)
                try:
                    r = w.call({"cmd": "seed", "prop": doc["property"], "seed": doc["trace"]["seed"],
                                "tier": doc["trace"].get("tier", "quick"), "shrink": False, "timeout": 600})
                finally:
                    w.close()
                digs[hs] = None if r is None else (r.get("ops_digest"), r.get("digest"))
            ok = len(set(d[0] for d in digs.values() if d)) == 1 and len(set(d[1] for d in digs.values() if d)) > 1
            return ok, {"status": "violation" if ok else "ok", "digests": {str(k): v for k, v in digs.items()},
                        "violations": [{"oracle": "hashseed_dependent", "observed": digs and str(digs)}]}
        extra = {"VERIF_REF_HASHSEED": str(doc["ref_hashseed"])} if doc.get("ref_hashseed") is not None else None
        if extra is not None and doc.get("ref_optimize") is not None:
            extra["VERIF_REF_OPTIMIZE"] = "1" if doc["ref_optimize"] else "0"
        w = WorkerProc(tree, WORLD_OF[doc["property"]], os.path.join(scratch.root, "replay-work"),
                       doc.get("hashseed", 0), extra)
        try:
            res = w.call({"cmd": "exec", "trace": doc["trace"], "events": True, "timeout": 600})
        finally:
            w.close()
        if res is None:
            return False, {"status": "error", "error": "worker died"}
        ok = res.get("status") == "violation" and any(v["oracle"] == doc["oracle"] for v in res.get("violations", []))
        return ok, res
    finally:
        if own:
            scratch.close()


class Report:
    """Collects violations, applies known findings, prints the contract lines."""

    def __init__(self, prop):
        self.prop = prop
        self.known = [k for k in core.load_known_findings() if k["property"] == prop]
        self.violations = []      # (path, key, res)
        self.known_hits = {}
        self.harness_errors = []
        self.unreproduced = 0
        self.max_reports = 3

    def add_violation(self, res, hashseed, scratch, verify=True, pool=None):
        key = violation_key(res)
        if any(key == v[1] for v in self.violations) or len(self.violations) >= self.max_reports:
            return
        for k in self.known:
            if k["key"] == key:
                if key not in self.known_hits:
                    self.known_hits[key] = k
                    print("KNOWN-FINDING: property=%s %s" % (self.prop, k["text"]), flush=True)
                return
        path = write_replay(self.prop, res, hashseed, scratch.fingerprint)
        if verify:
            ok, r2 = replay_file(path, scratch=_ReplayScratch(scratch))
            if not ok:
                # Not reproduced from a cold start.  Re-execute the explicit trace three times in the worker that found it
                # (each in a fresh fork of that worker's process image): if it reproduces there, the violation is real but
                # depends on something of the process image the simulator does not own (memory addresses / id() reuse).
                again = 0
                w = pool.originating_worker() if pool is not None else None
                if w is not None:
                    for _ in range(3):
                        r3 = w.call({"cmd": "exec", "trace": res["trace"], "events": False, "timeout": 600})
                        if r3 and r3.get("status") == "violation" and any(v["oracle"] == res["violations"][0]["oracle"] for v in r3.get("violations", [])):
                            again += 1
                if again < 2:
                    self.unreproduced += 1
                    self.harness_errors.append("replay of %s did not reproduce (%s; %d/3 in the originating worker)" % (path, r2.get("status"), again))
                    return
                doc = json.load(open(path))
                doc["replay_note"] = ("reproduced %d/3 when re-executed in the originating worker's process image, NOT from a cold start: the "
                                      "behaviour depends on process-image details outside the simulator's seams (e.g. object addresses)" % again)
                with open(path, "w") as f:
                    json.dump(doc, f, indent=1, sort_keys=True)
                print("NOTE: property=%s replay=%s reproduces only in the originating process image (%d/3)" % (self.prop, path, again), flush=True)
        self.violations.append((path, key, res))
        v = res["violations"][0]
        print("VIOLATION property=%s replay=%s" % (self.prop, path), flush=True)
        print("  oracle=%s seed=%s %s" % (v["oracle"], res["trace"].get("seed"),
                                          core.short(v.get("diff") or v.get("observed") or "", 300)), flush=True)

    def exit_code(self, min_ok=True):
        if self.violations:
            return 1
        if self.harness_errors or not min_ok:
            for e in self.harness_errors[:10]:
                print("HARNESS-ERROR: " + e, flush=True)
            return 2
        return 0


class _ReplayScratch:
    """Lends one extra private tree of an existing Scratch for replay verification."""

    def __init__(self, scratch):
        import shutil
        self.root = scratch.root
        self.fingerprint = scratch.fingerprint
        n = 0
        while os.path.exists(os.path.join(scratch.root, "rp%02d" % n)):
            n += 1
        t = os.path.join(scratch.root, "rp%02d" % n)
        os.makedirs(t)
        shutil.copytree(os.path.join(scratch.master, "simple_ddl_parser"), os.path.join(t, "simple_ddl_parser"))
        self.trees = [t]
