#!/venv/bin/python
"""Sensitivity self-test (not a registered check): a catalogue of realistic breakages, each applied to a
scratch copy of /repo.  For every mutant: (1) the repository's own test suite must still pass, (2) the
quick tier of the property it breaks must exit 1 with a VIOLATION line, (3) optionally the quick tiers of
the other properties are run to see what else notices.

  mutants.py [--only id,id] [--prop C14] [--budget 25] [--jobs 2] [--all-props]
Results -> /verif/mutants_report.json (+ a table on stdout)."""
import json
import os
import shutil
import subprocess
import sys
import tempfile
import time
from concurrent.futures import ThreadPoolExecutor

HERE = os.path.dirname(os.path.abspath(__file__))
VERIF = os.path.dirname(HERE)
PY = sys.executable

P = "simple_ddl_parser/parser.py"
D = "simple_ddl_parser/ddl_parser.py"
OC = "simple_ddl_parser/output/core.py"
CLI = "simple_ddl_parser/cli.py"

FIX14 = "        self.statement = None\n        self.block_comments = []\n        self.comments = []\n        data = self.pre_process_data(self.data)\n"
RUN_HEAD = "        self.tables = self.parse_data()\n"
RUN_TAIL = "        if json_dump:\n            self.tables = json.dumps(self.tables)\n        return self.tables\n"
CTOR_LEX = "        self.lexer = lex.lex(object=self, debug=False, debuglog=log)\n        self.yacc = yacc.yacc(module=self, debug=False, debuglog=log)\n"

MUTANTS = [
    # ---------------------------------------------------------------- C14
    {"id": "c14_revert_fix", "prop": "C14", "needs": "a second run() on the same object of a script with comments",
     "edits": [(P, FIX14, "        data = self.pre_process_data(self.data)\n")]},
    {"id": "c14_statement_not_reset", "prop": "C14", "needs": "a run() that raised or was interrupted mid-script, then another run()",
     "edits": [(P, "        self.statement = None\n        self.block_comments = []\n        self.comments = []\n        data = self.pre",
                "        self.block_comments = []\n        self.comments = []\n        data = self.pre")]},
    {"id": "c14_env_var_read_at_run", "prop": "C14", "needs": "an environment variable the library reads while running (found by sensing reads of os.environ in the other-environment reference, re-evaluated flipped)",
     "edits": [(P, RUN_HEAD, RUN_HEAD + "        if os.environ.get(\"SDP_NO_COMMENTS\"):\n            self.tables = [t for t in self.tables if \"comments\" not in t]\n")]},
    {"id": "c14_env_var_read_at_import", "prop": "C14", "needs": "an environment variable read at import time (the other-environment reference restarts with it flipped)",
     "edits": [(P, "class Parser:\n", "STRICT = bool(os.environ.get(\"SDP_STRICT\"))\n\n\nclass Parser:\n"),
               (P, RUN_HEAD, "        if STRICT:\n            self.silent = False\n" + RUN_HEAD)]},
    {"id": "c14_ttl_cache_refresh_forgets_flags", "prop": "C14", "needs": "two run() calls for the same text more than 300 simulated seconds apart (clock jump between operations)",
     "edits": [(P, "class Parser:\n", "import time\n\n_PARSED = {}\n_TTL = 300.0\n\n\nclass Parser:\n"),
               (P, RUN_HEAD, "        key = (self.data, self.normalize_names, self.silent)\n        hit = _PARSED.get(key)\n        if hit is not None and time.monotonic() - hit[0] > _TTL:\n            _PARSED.pop(key)\n            self.normalize_names = False\n        _PARSED[key] = (time.monotonic(), None)\n" + RUN_HEAD)]},
    {"id": "c14_wall_clock_date_branch", "prop": "C14", "needs": "a process living at another date (simulated clock behind datetime.now())",
     "edits": [(P, "class Parser:\n", "from datetime import datetime\n\n\nclass Parser:\n"),
               (P, RUN_HEAD, "        if datetime.now().year > 2030:\n            group_by_type = False\n" + RUN_HEAD)]},
    {"id": "c14_alloc_failure_fallback_sticks", "prop": "C14", "needs": "a MemoryError / RecursionError inside run() (injected at a line of library code), then another run() on the same object",
     "edits": [(P, RUN_HEAD, "        try:\n            self.tables = self.parse_data()\n        except (MemoryError, RecursionError):\n            self.normalize_names = False\n" + RUN_HEAD)]},
    {"id": "c14_memo_last_result", "prop": "C14", "needs": "second run() with different arguments",
     "edits": [(P, RUN_HEAD, "        if getattr(self, '_memo', None) is not None:\n            return self._memo\n" + RUN_HEAD),
               (P, RUN_TAIL, "        if json_dump:\n            self.tables = json.dumps(self.tables)\n        self._memo = self.tables\n        return self.tables\n")]},
    {"id": "c14_module_memo_by_text", "prop": "C14", "needs": "two objects with the same text but other flags / args in one process",
     "edits": [(P, "class Parser:\n", "_RESULTS = {}\n\n\nclass Parser:\n"),
               (P, RUN_HEAD, "        if (self.data, output_mode, group_by_type) in _RESULTS and not dump and not json_dump:\n            return _RESULTS[(self.data, output_mode, group_by_type)]\n" + RUN_HEAD),
               (P, RUN_TAIL, "        if not json_dump:\n            _RESULTS[(self.data, output_mode, group_by_type)] = self.tables\n" + RUN_TAIL)]},
    {"id": "c14_data_reassigned", "prop": "C14", "needs": "second run() on the same object",
     "edits": [(P, "        data = self.pre_process_data(self.data)\n        regex_n", "        data = self.data = self.pre_process_data(self.data)\n        regex_n"),
               (P, "        data = data.decode(\"utf-8\")\n", "        data = data.decode(\"utf-8\") if isinstance(data, bytes) else data\n")]},
    {"id": "c14_output_class_level_result", "prop": "C14", "tests_may_fail": True,
     "needs": "a second run() in the same process (any object): Output accumulators moved to class level (the repository's own tests notice it too: kept only as a sanity case)",
     "edits": [(OC, "class Output:\n    \"\"\"class implements logic to format final output after parser\"\"\"\n",
                "class Output:\n    \"\"\"class implements logic to format final output after parser\"\"\"\n\n    final_result: List[Dict] = []\n    tables_dict: Dict = {}\n"),
               (OC, "        self.final_result = []\n        self.tables_dict = {}\n", "")]},
    {"id": "c14_group_order_from_set", "prop": "C14", "needs": "group_by_type + json_dump under another hash seed",
     "edits": [(OC, "        for item in self.final_result:\n            for key in keys_map:",
                "        result_as_dict = {k: result_as_dict[k] for k in set(result_as_dict)}\n        for item in self.final_result:\n            for key in keys_map:")]},
    {"id": "c14_writes_debug_file", "prop": "C14", "needs": "any run without dump: a file appears in the working directory",
     "edits": [(P, RUN_HEAD, RUN_HEAD + "        if len(self.tables) > 3:\n            with open('sdp_last_run.txt', 'w') as _f:\n                _f.write(str(len(self.tables)))\n")]},
    {"id": "c14_settings_popped", "prop": "C14", "needs": "parse_from_file with a parser_settings dict that is reused by the caller",
     "edits": [(D, "        return DDLParser(df.read(), **(parser_settings or {})).run(",
                "        parser_settings = parser_settings if parser_settings is not None else {}\n        silent = parser_settings.pop(\"silent\", True)\n        return DDLParser(df.read(), silent=silent, **parser_settings).run(")]},
    {"id": "c14_flags_reset_after_parse", "prop": "C14", "needs": "a run interrupted or failing mid-statement leaves lexer flags dirty for the next run",
     "edits": [(P, "        self.set_default_flags_in_lexer()\n\n        self.process_statement()\n", "        self.process_statement()\n\n        self.set_default_flags_in_lexer()\n"),
               (P, "        self.columns_closed = False\n", "        self.columns_closed = False\n        self.set_default_flags_in_lexer()\n")]},
    {"id": "c14_output_mode_sticky", "prop": "C14", "needs": "run(output_mode=X) then run() with the default mode on the same object",
     "edits": [(P, "        if output_mode not in dialect_by_name:", "        if output_mode == \"sql\":\n            output_mode = getattr(self, \"_last_mode\", \"sql\")\n        self._last_mode = output_mode\n        if output_mode not in dialect_by_name:")]},
    # ---------------------------------------------------------------- C15
    {"id": "c15_revert_fix", "prop": "C15", "needs": "a second parser constructed before the first runs",
     "edits": [(P, "self.yacc.parse(self.statement, lexer=self.lexer)", "yacc.parse(self.statement)")]},
    {"id": "c15_module_lexer", "prop": "C15", "needs": "a second parser constructed before the first runs (own parser, last-built lexer)",
     "edits": [(P, "self.yacc.parse(self.statement, lexer=self.lexer)", "self.yacc.parse(self.statement)")]},
    # (a class-level shared lexer+parser was tried: the test suite itself fails with it, so it is not a valid seeded change)
    {"id": "c15_class_level_flags", "prop": "C15", "needs": "two parsers with different normalize_names, the second constructed before the first runs",
     "edits": [(P, "        self.normalize_names = normalize_names\n", "        type(self).normalize_names = normalize_names\n")]},
    {"id": "c15_class_level_silent", "prop": "C15", "needs": "two parsers with different silent, second constructed before the first runs an unsupported statement",
     "edits": [(P, "        self.silent = not debug if debug else silent\n", "        Parser.silent = not debug if debug else silent\n")]},
    {"id": "c15_flags_on_global_lexer", "prop": "C15", "needs": "another parser constructed in between: flag reset goes to the last built lexer",
     "edits": [(P, "        for attr in attrs:\n            setattr(self.lexer, attr, False)\n        self.lexer.lt_open = 0\n",
                "        for attr in attrs:\n            setattr(lex.lexer, attr, False)\n        lex.lexer.lt_open = 0\n")]},
    {"id": "c15_module_statement_buffer", "prop": "C15", "needs": "thread switch between assembling a statement and parsing it (statement granularity)",
     "edits": [(P, "class Parser:\n", "_CURRENT = {\"stmt\": None}\n\n\nclass Parser:\n"),
               (P, "        self.set_default_flags_in_lexer()\n\n        self.process_statement()\n", "        self.set_default_flags_in_lexer()\n        _CURRENT[\"stmt\"] = self.statement\n\n        self.process_statement()\n"),
               (P, "self.yacc.parse(self.statement, lexer=self.lexer)", "self.yacc.parse(_CURRENT[\"stmt\"] if _CURRENT[\"stmt\"] else self.statement, lexer=self.lexer)")]},
    {"id": "c15_module_scratch_in_token", "prop": "C15", "needs": "thread switch inside the lexer between two lines of t_ID (line granularity only)", "tier": "thorough",
     "edits": [(D, "class DDLParser(Parser, Dialects):\n", "_SCRATCH = {}\n\n\nclass DDLParser(Parser, Dialects):\n"),
               (D, "        t.type = tok.symbol_tokens.get(t.value, \"ID\")\n\n        if t.type == \"LP\":", "        _SCRATCH[\"v\"] = t.value\n        t.type = tok.symbol_tokens.get(t.value, \"ID\")\n        t.value = _SCRATCH[\"v\"]\n\n        if t.type == \"LP\":")]},
    {"id": "c15_shared_regex_state", "prop": "C15", "needs": "a SerDe input.regex script in one parser and any script in another (lexer.state on the global lexer)",
     "edits": [(P, "        self.lexer.state = {\"lexer_state_regex\": regex}\n", "        lex.lexer.state = {\"lexer_state_regex\": regex}\n")]},
    # ---------------------------------------------------------------- C19
    {"id": "c19_pathlib_dump_swallows_oserror", "prop": "C19", "needs": "an I/O error raised at the os level (pathlib bypasses the module-global open/os seams): the call returns normally without a dump",
     "edits": [(OC, "    if not os.path.isdir(dump_path):\n        os.makedirs(dump_path, exist_ok=True)\n    with open(\"{}/{}_schema.json\".format(dump_path, table_name), \"w+\") as schema_file:\n        json.dump(data, schema_file, indent=1)",
                "    from pathlib import Path\n    target_dir = Path(dump_path)\n    target_dir.mkdir(parents=True, exist_ok=True)\n    try:\n        with (target_dir / \"{}_schema.json\".format(table_name)).open(\"w+\") as schema_file:\n            json.dump(data, schema_file, indent=1)\n    except OSError as e:\n        logging.getLogger(__name__).warning(\"dump failed: %s\", e)")]},
    {"id": "c19_encoding_ignored", "prop": "C19", "needs": "a non-UTF-8 input file",
     "edits": [(D, "    with open(file_path, \"r\", encoding=encoding) as df:", "    with open(file_path, \"r\") as df:")]},
    {"id": "c19_settings_dropped", "prop": "C19", "needs": "parser_settings that change the result (normalize_names / silent=False)",
     "edits": [(D, "DDLParser(df.read(), **(parser_settings or {})).run(", "DDLParser(df.read()).run(")]},
    {"id": "c19_kwargs_partially_dropped", "prop": "C19", "needs": "parse_from_file(..., group_by_type=True)",
     "edits": [(D, "            file_path=file_path, **kwargs\n", "            file_path=file_path, **{k: v for k, v in kwargs.items() if k != \"group_by_type\"}\n")]},
    {"id": "c19_dump_append", "prop": "C19", "needs": "a dump over an existing (stale) file",
     "edits": [(OC, "\"w+\") as schema_file", "\"a\") as schema_file")]},
    {"id": "c19_dump_no_truncate", "prop": "C19", "needs": "a dump over a longer stale file",
     "edits": [(OC, "    with open(\"{}/{}_schema.json\".format(dump_path, table_name), \"w+\") as schema_file:\n",
                "    _p = \"{}/{}_schema.json\".format(dump_path, table_name)\n    with open(_p, \"r+\" if os.path.exists(_p) else \"w+\") as schema_file:\n")]},
    {"id": "c19_dump_skip_existing", "prop": "C19", "needs": "a second dump to the same target (or stale/torn file present)",
     "edits": [(OC, "    with open(\"{}/{}_schema.json\".format(dump_path, table_name), \"w+\") as schema_file:\n",
                "    if os.path.exists(\"{}/{}_schema.json\".format(dump_path, table_name)):\n        return\n    with open(\"{}/{}_schema.json\".format(dump_path, table_name), \"w+\") as schema_file:\n")]},
    {"id": "c19_dump_path_basename_only", "prop": "C19", "needs": "a nested or absolute target directory",
     "edits": [(OC, "    if not os.path.isdir(dump_path):", "    dump_path = os.path.basename(dump_path.rstrip(\"/\")) or dump_path\n    if not os.path.isdir(dump_path):")]},
    {"id": "c19_no_makedirs_nested", "prop": "C19", "needs": "a missing target with missing parents",
     "edits": [(OC, "        os.makedirs(dump_path, exist_ok=True)\n", "        os.mkdir(dump_path)\n")]},
    {"id": "c19_oserror_swallowed", "prop": "C19", "needs": "an I/O error during the dump: call returns normally, dump missing or torn",
     "edits": [(OC, "    with open(\"{}/{}_schema.json\".format(dump_path, table_name), \"w+\") as schema_file:\n        json.dump(data, schema_file, indent=1)\n",
                "    try:\n        with open(\"{}/{}_schema.json\".format(dump_path, table_name), \"w+\") as schema_file:\n            json.dump(data, schema_file, indent=1)\n    except OSError:\n        logger.warning(\"dump failed\")\n")]},
    {"id": "c19_basename_second_part", "prop": "C19", "needs": "dump naming for ordinary names",
     "edits": [(P, "os.path.basename(file_path).split(\".\")[0]", "os.path.basename(file_path).rsplit(\".\", 1)[-1]")]},
    {"id": "c19_basename_not_stripped", "prop": "C19", "needs": "file_path with directories + relative dump path",
     "edits": [(P, "os.path.basename(file_path).split(\".\")[0]", "file_path.split(\".\")[0].lstrip(\"/\")")]},
    {"id": "c19_dump_before_grouping", "prop": "C19", "needs": "dump=True with group_by_type=True: file holds ungrouped data",
     "edits": [(OC, "        if self.group_by_type:\n            self.group_by_type_result()\n        return self.final_result\n",
                "        self.flat_result = list(self.final_result)\n        if self.group_by_type:\n            self.group_by_type_result()\n        return self.final_result\n"),
               (P, "        self.tables = Output(\n            parser_output=self.tables,\n            group_by_type=group_by_type,\n            output_mode=output_mode,\n        ).format()\n",
                "        _out = Output(\n            parser_output=self.tables,\n            group_by_type=group_by_type,\n            output_mode=output_mode,\n        )\n        self.tables = _out.format()\n"),
               (P, "os.path.basename(file_path).split(\".\")[0], dump_path, self.tables\n", "os.path.basename(file_path).split(\".\")[0], dump_path, _out.flat_result\n")]},
    {"id": "c19_cli_no_dump_inverted_for_v", "prop": "C19", "needs": "sdp --no-dump -v",
     "edits": [(CLI, "        dump=not args.no_dump,\n", "        dump=not args.no_dump or args.v,\n")]},
    {"id": "c19_cli_mode_dropped", "prop": "C19", "needs": "sdp -o <mode>",
     "edits": [(CLI, "        output_mode=args.output_mode,\n", "")]},
    {"id": "c19_cli_target_dropped_in_dir_mode", "prop": "C19", "needs": "sdp <dir> -t <target>: second and later files go to the default target",
     "edits": [(CLI, "        for file_path in files:\n            args.ddl_file_path = file_path\n            run_for_file(args)\n",
                "        for n, file_path in enumerate(files):\n            args.ddl_file_path = file_path\n            if n:\n                args.target = \"schemas\"\n            run_for_file(args)\n")]},
    {"id": "c19_cli_dir_first_only", "prop": "C19", "needs": "a directory with two or more DDL files",
     "edits": [(CLI, "        for file_path in files:\n", "        for file_path in files[:1]:\n")]},
    {"id": "c19_cli_hql_dropped", "prop": "C19", "needs": "a directory containing a .hql file",
     "edits": [(CLI, "    ext = [\"ddl\", \"sql\", \"hql\", \"\", \"bql\"]", "    ext = [\"ddl\", \"sql\", \"\", \"bql\"]")]},
    {"id": "c19_cli_dir_sorted_reverse", "prop": "C19", "needs": "NOT a breakage (order of processing is unspecified): must stay quiet", "expect": "quiet",
     "edits": [(CLI, "            for file_name in os.listdir(args.ddl_file_path)\n", "            for file_name in sorted(os.listdir(args.ddl_file_path), reverse=True)\n")]},
    # ---------------------------------------------------------------- C20
    {"id": "c20_optimize_true", "prop": "C20", "needs": "a stale cache with foreign tables: signature check skipped",
     "edits": [(P, "yacc.yacc(module=self, debug=False, debuglog=log)", "yacc.yacc(module=self, debug=False, debuglog=log, optimize=True)")]},
    {"id": "c20_second_tabmodule_never_checked", "prop": "C20", "needs": "stale foreign cache: tables loaded by hand from the file without a signature check",
     "edits": [(P, CTOR_LEX, "        self.lexer = lex.lex(object=self, debug=False, debuglog=log)\n        try:\n            from simple_ddl_parser import parsetab as _pt\n            self.yacc = yacc.yacc(module=self, debug=False, debuglog=log, tabmodule=_pt, optimize=True)\n        except Exception:\n            self.yacc = yacc.yacc(module=self, debug=False, debuglog=log)\n")]},
    {"id": "c20_no_write_tables", "prop": "C20", "needs": "NOT a breakage (the property does not require repairing the cache): must stay quiet", "expect": "quiet",
     "edits": [(P, "yacc.yacc(module=self, debug=False, debuglog=log)", "yacc.yacc(module=self, debug=False, debuglog=log, write_tables=False)")]},
    {"id": "c20_hand_edited_action", "prop": "C20", "needs": "shipped table with matching signature but one edited action (static clause); the edited entry is hit by the repository's tests, so this one only exercises the static clause",
     "script": "edit_action", "tests_may_fail": True},
    {"id": "c20_old_version_accepted", "prop": "C20", "needs": "old-version / stale cache swallowed: a broad except falls back to a parser cached at module level from whatever table was on disk",
     "edits": [(P, "class Parser:\n", "_LAST = {}\n\n\nclass Parser:\n"),
               (P, CTOR_LEX, "        self.lexer = lex.lex(object=self, debug=False, debuglog=log)\n        import ply.yacc as _y\n        _real = _y.__tabversion__\n        try:\n            import simple_ddl_parser.parsetab as _pt\n            _y.__tabversion__ = getattr(_pt, \"_tabversion\", _real)\n        except Exception:\n            pass\n        try:\n            self.yacc = yacc.yacc(module=self, debug=False, debuglog=log, optimize=True)\n        finally:\n            _y.__tabversion__ = _real\n")]},
]


def _edit_action(tree):
    """Flip one shift/reduce entry in the shipped parsetab.py, keeping the signature."""
    import re
    p = os.path.join(tree, "simple_ddl_parser", "parsetab.py")
    s = open(p).read()
    m = re.search(r"_lr_action_items = \{'CREATE':\(\[([0-9]+),", s)
    if not m:
        m = re.search(r"_lr_action_items = \{'[A-Z_]+':\(\[([0-9]+),", s)
    # change the first action value of the first token: find "],[" after the key list
    i = s.index("],[", m.start()) + 3
    j = i
    while s[j] not in ",]":
        j += 1
    old = s[i:j]
    new = str(int(old) + 1) if not old.startswith("-") else str(int(old) - 1)
    s = s[:i] + new + s[j:]
    open(p, "w").write(s)


SCRIPTS = {"edit_action": _edit_action}


def apply_mutant(m, tree):
    for (f, old, new) in m.get("edits", []):
        p = os.path.join(tree, f)
        s = open(p).read()
        if old not in s:
            raise RuntimeError("%s: pattern not found in %s: %r" % (m["id"], f, old[:60]))
        s = s.replace(old, new, 1)
        open(p, "w").write(s)
    if m.get("script"):
        SCRIPTS[m["script"]](tree)


def make_tree(base):
    t = tempfile.mkdtemp(prefix="sdp-mut-", dir=base)
    for d in ("simple_ddl_parser", "tests"):
        shutil.copytree(os.path.join("/repo", d), os.path.join(t, d), ignore=shutil.ignore_patterns("__pycache__"))
    return t


def run_one(m, budget, all_props, base):
    t0 = time.time()
    tree = make_tree(base)
    out = {"id": m["id"], "prop": m["prop"], "needs": m["needs"], "expect": m.get("expect", "caught")}
    try:
        apply_mutant(m, tree)
        d = subprocess.run(["git", "diff", "--no-index", "--stat", "/repo/simple_ddl_parser", os.path.join(tree, "simple_ddl_parser")],
                           stdout=subprocess.PIPE, stderr=subprocess.DEVNULL, text=True)
        out["diffstat"] = d.stdout.strip().splitlines()[-1] if d.stdout.strip() else ""
        env = dict(os.environ, PYTHONPATH=tree, PYTHONDONTWRITEBYTECODE="1")
        r = subprocess.run([PY, "-m", "pytest", "-q", "-x", "-p", "no:cacheprovider", "tests"], cwd=tree, env=env,
                           stdout=subprocess.PIPE, stderr=subprocess.STDOUT, text=True, timeout=900)
        out["tests_pass"] = r.returncode == 0
        out["tests_tail"] = r.stdout.strip().splitlines()[-1] if r.stdout.strip() else ""
        # the test run may have rewritten the mutant's table cache; keep whatever the mutant's library left
        props = [m["prop"]] + ([p for p in ("C14", "C15", "C19", "C20") if p != m["prop"]] if all_props else [])
        out["checks"] = {}
        for p in props:
            tier = m.get("tier", "quick") if p == m["prop"] else "quick"
            env = dict(os.environ, VERIF_REPO=tree, VERIF_BUDGET_S=str(budget), VERIF_NO_EVIDENCE="1")
            env.pop("PYTHONPATH", None)
            c = subprocess.run([PY, os.path.join(SNAP, "dst", "check.py"), p, tier], cwd=SNAP, env=env,
                               stdout=subprocess.PIPE, stderr=subprocess.STDOUT, text=True, timeout=3600)
            vio = [ln for ln in c.stdout.splitlines() if ln.startswith("VIOLATION")]
            ora = [ln.strip() for ln in c.stdout.splitlines() if ln.strip().startswith("oracle=")]
            out["checks"][p] = {"rc": c.returncode, "violations": len(vio), "first": (ora[0][:200] if ora else ""),
                                "tail": c.stdout.strip().splitlines()[-1][:200] if c.stdout.strip() else ""}
        own = out["checks"][m["prop"]]
        out["ok"] = (out["tests_pass"] or m.get("tests_may_fail", False)) and ((own["rc"] == 1) if out["expect"] == "caught" else (own["rc"] == 0))
    except Exception as e:  # noqa
        out["error"] = repr(e)[:300]
        out["ok"] = False
    finally:
        shutil.rmtree(tree, ignore_errors=True)
    out["wall_s"] = round(time.time() - t0, 1)
    return out


SNAP = VERIF


def main():
    """Runs against a frozen copy of the machinery, so /verif can be edited while a batch runs."""
    global SNAP
    SNAP = tempfile.mkdtemp(prefix="verif-snap-", dir="/dev/shm" if os.path.isdir("/dev/shm") else None)
    for d in ("dst", "corpus"):
        shutil.copytree(os.path.join(VERIF, d), os.path.join(SNAP, d), ignore=shutil.ignore_patterns("__pycache__"))
    shutil.copyfile(os.path.join(VERIF, "known_findings.txt"), os.path.join(SNAP, "known_findings.txt"))
    try:
        return _main()
    finally:
        shutil.rmtree(SNAP, ignore_errors=True)


def _main():
    a = sys.argv[1:]
    only = set(a[a.index("--only") + 1].split(",")) if "--only" in a else None
    prop = a[a.index("--prop") + 1] if "--prop" in a else None
    budget = int(a[a.index("--budget") + 1]) if "--budget" in a else 25
    jobs = int(a[a.index("--jobs") + 1]) if "--jobs" in a else 1
    all_props = "--all-props" in a
    base = "/dev/shm" if os.path.isdir("/dev/shm") else tempfile.gettempdir()
    sel = [m for m in MUTANTS if (only is None or m["id"] in only) and (prop is None or m["prop"] == prop)]
    results = []
    with ThreadPoolExecutor(max_workers=jobs) as ex:
        for r in ex.map(lambda m: run_one(m, budget, all_props, base), sel):
            results.append(r)
            own = (r.get("checks") or {}).get(r["prop"], {})
            print("%-38s %s tests=%s own_rc=%s %s %ss %s" % (r["id"], "OK  " if r["ok"] else "MISS", r.get("tests_pass"),
                                                              own.get("rc"), own.get("first", "")[:90], r["wall_s"], r.get("error", "")), flush=True)
    path = os.path.join(VERIF, "mutants_report.json")
    prev = {}
    if os.path.exists(path) and (only or prop):
        prev = {r["id"]: r for r in json.load(open(path))}
    for r in results:
        prev[r["id"]] = r
    allr = [prev[m["id"]] for m in MUTANTS if m["id"] in prev]
    json.dump(allr, open(path, "w"), indent=1)
    bad = [r["id"] for r in results if not r["ok"]]
    print("%d mutants, %d as expected, not as expected: %s" % (len(results), len(results) - len(bad), bad))
    return 1 if bad else 0


if __name__ == "__main__":
    sys.exit(main())
