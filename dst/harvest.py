#!/venv/bin/python
"""Harvest the regression corpus: run the repository's test suite (in a scratch copy) with a
recording plugin that wraps Parser.__init__ / Parser.run and writes every distinct
(ddl, constructor flags, run kwargs) triple to /verif/corpus/regression.json.

Usage: /venv/bin/python /verif/dst/harvest.py [--repo /repo]
Not part of any registered check; the corpus is committed.  Checks never need pytest."""
import json, os, shutil, subprocess, sys, tempfile

PLUGIN = r'''
import json, os, atexit
_REC = []
def pytest_configure(config):
    from simple_ddl_parser import parser as P
    oi, orun = P.Parser.__init__, P.Parser.run
    def init(self, content, *a, **kw):
        names = ["silent", "debug", "normalize_names", "log_file", "log_level"]
        flags = dict(zip(names, a)); flags.update(kw)
        self._verif_rec = {"ddl": content, "flags": flags}
        return oi(self, content, *a, **kw)
    def run(self, **kw):
        rec = dict(self._verif_rec); rec["run"] = kw
        _REC.append(rec)
        return orun(self, **kw)
    P.Parser.__init__, P.Parser.run = init, run
def pytest_unconfigure(config):
    with open(os.environ["VERIF_HARVEST_OUT"], "w") as f:
        json.dump(_REC, f)
'''

def main():
    repo = "/repo"
    if "--repo" in sys.argv:
        repo = sys.argv[sys.argv.index("--repo") + 1]
    base = "/dev/shm" if os.path.isdir("/dev/shm") else tempfile.gettempdir()
    tmp = tempfile.mkdtemp(prefix="sdp-harvest-", dir=base)
    try:
        for d in ("simple_ddl_parser", "tests"):
            shutil.copytree(os.path.join(repo, d), os.path.join(tmp, d))
        with open(os.path.join(tmp, "verif_rec_plugin.py"), "w") as f:
            f.write(PLUGIN)
        out = os.path.join(tmp, "rec.json")
        env = dict(os.environ, PYTHONPATH=tmp, VERIF_HARVEST_OUT=out, PYTHONHASHSEED="0")
        r = subprocess.run([sys.executable, "-m", "pytest", "-q", "-p", "no:cacheprovider",
                            "-p", "verif_rec_plugin", "tests"], cwd=tmp, env=env,
                           stdout=subprocess.PIPE, stderr=subprocess.STDOUT, text=True)
        print(r.stdout[-400:])
        recs = json.load(open(out))
        seen, items = set(), []
        for r_ in recs:
            fl = dict(r_["flags"])
            if fl.pop("debug", False):
                fl["silent"] = False          # debug=True only means silent=False
            fl.pop("log_file", None); fl.pop("log_level", None)
            rk = {k: v for k, v in r_["run"].items() if k in ("output_mode", "group_by_type", "json_dump")}
            key = json.dumps([r_["ddl"], fl, rk], sort_keys=True)
            if key in seen or not isinstance(r_["ddl"], str):
                continue
            seen.add(key)
            items.append({"ddl": r_["ddl"], "flags": fl, "run": rk})
        items.sort(key=lambda it: json.dumps([it["ddl"], it["flags"], it["run"]], sort_keys=True))
        dst = os.path.join(os.path.dirname(os.path.dirname(os.path.abspath(__file__))), "corpus", "regression.json")
        with open(dst, "w") as f:
            json.dump(items, f, indent=0, sort_keys=True)
        print("records", len(recs), "distinct", len(items), "->", dst, os.path.getsize(dst), "bytes")
    finally:
        shutil.rmtree(tmp, ignore_errors=True)

if __name__ == "__main__":
    main()
