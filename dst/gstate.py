"""Digest of the library's process-global mutable state (module globals and class attributes of every
simple_ddl_parser.* module except the table data module).

NOT an oracle: the properties speak about results, and a benign cache would change this digest without
breaking anything.  It is a *probe that directs the search*: on the unchanged tree the digest never changes
(measured over the whole regression corpus); when an op does change it, the world immediately runs a sweep
of victim scripts in the same process and compares each with the pristine reference - turning "some script,
some day, parses differently after this one ran" into an explicit, replayable two-object history."""
import logging
import sys
import types

import core


def snapshot():
    out = {}
    for name, m in sorted(sys.modules.items()):
        if m is None or not name.startswith("simple_ddl_parser") or name.endswith("parsetab"):
            continue
        for k, v in sorted(vars(m).items()):
            if isinstance(v, types.FunctionType) and getattr(v, "__module__", None) == name:
                _defaults(out, "%s.%s" % (name, k), v)
            if k.startswith("__") or isinstance(v, (types.ModuleType, types.FunctionType, types.BuiltinFunctionType, logging.Logger)):
                continue
            if isinstance(v, type):
                if getattr(v, "__module__", None) != name:
                    continue
                for ak, av in sorted(vars(v).items()):
                    fn = getattr(av, "__func__", av)
                    if isinstance(fn, types.FunctionType):
                        _defaults(out, "%s.%s.%s" % (name, k, ak), fn)
                    if ak.startswith("__") or isinstance(av, (staticmethod, classmethod, property, logging.Logger)):
                        continue
                    if callable(av) and not isinstance(av, type):
                        continue            # methods / functions; a CLASS stored as an attribute (a cached generated class) is data
                    out["%s.%s.%s" % (name, k, ak)] = _enc(av)
                continue
            out["%s.%s" % (name, k)] = _enc(v)
    out["simple_ddl_parser.parsetab:tables"] = tables_digest()
    return out


def tables_digest():
    """Cheap fingerprint of the LALR tables shared by every parser of the process (the imported table data module)."""
    import hashlib
    import pickle
    m = sys.modules.get("simple_ddl_parser.parsetab")
    if m is None:
        return None
    h = hashlib.sha1()
    for name in ("_lr_action", "_lr_goto"):
        try:
            h.update(pickle.dumps(getattr(m, name, None), protocol=4))
        except Exception:  # noqa
            h.update(b"?")
    return h.hexdigest()


def _defaults(out, label, fn):
    """Mutable default argument values live on the function object and are shared by every call in the process."""
    ds = list(fn.__defaults__ or ()) + list((fn.__kwdefaults__ or {}).values())
    ds = [d for d in ds if isinstance(d, (dict, list, set))]
    if ds:
        out[label + ":defaults"] = _enc(ds)


def _enc(v):
    if isinstance(v, (dict, list, set, frozenset, tuple)):
        # a fingerprint is enough (only "did it change within this process" is asked); pickle is an order of magnitude
        # cheaper than the canonical JSON form.  Sets pickle in iteration order, which is stable within one process.
        try:
            import hashlib
            import pickle
            return hashlib.sha1(pickle.dumps(v, protocol=4)).hexdigest()
        except Exception:  # noqa   (unpicklable members: fall back to the canonical form / repr)
            try:
                return core.cjson(core.canon(v))
            except Exception:  # noqa
                return repr(v)[:400]
    return repr(v)[:200]


def changed(a, b):
    return sorted(k for k in set(a) | set(b) if a.get(k) != b.get(k))
