"""The `tablecache` world (C20): restart sequences over the states of the on-disk parse-table
cache.  Each worker owns a private copy of the package and may damage parsetab.py freely.  An
incarnation is a *fresh interpreter* (real process restart: only the file survives).  Before
each incarnation the fault stream sets the durable state; the incarnation constructs parsers and
parses a workload sample; every outcome must equal the one recorded under a valid cache."""
import collections
import json
import os
import re
import shutil
import subprocess

import core
import workload

STATES = ["valid", "missing", "stale_benign", "stale_foreign", "old_version", "old_version_foreign", "as_found", "keep"]
N_GENERATED = 48


class TableCacheWorld:
    def __init__(self, tree, workroot):
        self.tree, self.workroot = tree, workroot
        self.pkg = os.path.join(tree, "simple_ddl_parser")
        self.pt = os.path.join(self.pkg, "parsetab.py")
        shutil.rmtree(os.path.join(self.pkg, "__pycache__"), ignore_errors=True)
        self.states_dir = os.path.join(workroot, "states")
        os.makedirs(self.states_dir, exist_ok=True)
        # workload: the full regression corpus + generated scripts (fixed generator seed)
        self.W = [{"ddl": c["ddl"], "flags": c["flags"], "run": c["run"]} for c in core.corpus()]
        rng = core.stream(20200, "tablecache-workload")
        for _ in range(N_GENERATED):
            it = workload.pick_item(rng, 0.0)
            self.W.append({"ddl": it["ddl"], "flags": it["flags"], "run": workload.pick_run_kwargs(rng, core.OUTPUT_MODES[:9], {})})
        # constructor-flag probes: simple scripts under every documented constructor flag
        self.flag_probes = []
        for fl in ({"debug": True}, {"log_level": 10}, {"silent": False}, {"normalize_names": True}):
            self.flag_probes.append(len(self.W))
            self.W.append({"ddl": "create table flagged (a int not null, \"b\" varchar(10) default 'x');\nCREATE TABLE broken (a int) PRIMARY;\n",
                           "flags": dict(fl), "run": {}})
        self.small = [i for i, w in enumerate(self.W) if len(w["ddl"]) <= 4000]
        # the valid state: what the library's own regeneration leaves behind (scratch master was warmed up)
        self.valid_file = os.path.join(self.states_dir, "valid.py")
        shutil.copyfile(self.pt, self.valid_file)
        self.as_found = os.path.join(os.path.dirname(tree), "parsetab_as_found.py")
        self._foreign = None
        self.foreign_info = None
        self.runs_done = 0
        # overlap groups: three objects with different settings alive at once (constructed first, run later)
        rg = core.stream(20201, "tablecache-overlaps")
        norm = [i for i in self.small if self.W[i]["flags"].get("normalize_names")]
        strict = [i for i in self.small if self.W[i]["flags"].get("silent") is False]
        regex = [i for i in self.small if "input.regex" in self.W[i]["ddl"]]
        plain = [i for i in self.small if not self.W[i]["flags"]]
        self.overlap_groups = []
        for _ in range(6):
            g = [rg.choice(norm or plain), rg.choice(plain), rg.choice(regex or strict or plain)]
            rg.shuffle(g)
            self.overlap_groups.append(g)
        # baseline under a valid cache (fresh interpreter)
        r = self._incarnate(list(range(len(self.W))), False, os.environ.get("PYTHONHASHSEED", "0"),
                            overlaps=list(range(len(self.overlap_groups))))
        self.overlap_base = r.get("overlap_digests") or []
        self.seq_base = {}
        self.pkg_files0 = set(os.listdir(self.pkg))
        self.tree_files0 = set(os.listdir(self.tree))
        if r.get("import_exc") or r.get("ctor_exc") or r.get("rewritten"):
            raise RuntimeError("baseline incarnation under a valid cache misbehaved: %s" % {k: r.get(k) for k in ("import_exc", "ctor_exc", "rewritten")})
        self.baseline = r["digests"]

    # ------------------------------------------------------------------ durable state
    def _foreign_file(self):
        if self._foreign is None:
            tmp_tree = os.path.join(self.workroot, "fgen")
            shutil.rmtree(tmp_tree, ignore_errors=True)
            os.makedirs(tmp_tree)
            shutil.copytree(self.pkg, os.path.join(tmp_tree, "simple_ddl_parser"))
            shutil.copyfile(self.valid_file, os.path.join(tmp_tree, "simple_ddl_parser", "parsetab.py"))
            out = os.path.join(self.states_dir, "foreign")
            r = subprocess.run([core.PY, os.path.join(core.HERE, "tablegen.py"), tmp_tree, "foreign", out],
                               stdout=subprocess.PIPE, stderr=subprocess.DEVNULL, text=True, timeout=300,
                               env=core.worker_env(0))
            shutil.rmtree(tmp_tree, ignore_errors=True)
            info = json.loads(r.stdout.strip().splitlines()[-1]) if r.stdout.strip() else {"error": "no output"}
            if r.returncode != 0 or info.get("error"):
                # the declared grammar cannot be turned into tables at all (the library's own regeneration will fail
                # the same way and be reported through the 'missing' state): this fault kind is unavailable
                self.foreign_info = {"unavailable": "table generation failed: %s" % info}
                self._foreign = False
            else:
                self.foreign_info = info
                self._foreign = os.path.join(out, "parsetab.py")
        return self._foreign

    def _lextab_file(self):
        """A foreign optimized-lexer table (tablegen.py lextab); False if it cannot be produced."""
        if getattr(self, "_lextab", None) is None:
            tmp_tree = os.path.join(self.workroot, "lgen")
            shutil.rmtree(tmp_tree, ignore_errors=True)
            os.makedirs(tmp_tree)
            shutil.copytree(self.pkg, os.path.join(tmp_tree, "simple_ddl_parser"), ignore=shutil.ignore_patterns("__pycache__", "lextab.py"))
            shutil.copyfile(self.valid_file, os.path.join(tmp_tree, "simple_ddl_parser", "parsetab.py"))
            out = os.path.join(self.states_dir, "lextab")
            r = subprocess.run([core.PY, os.path.join(core.HERE, "tablegen.py"), tmp_tree, "lextab", out],
                               stdout=subprocess.PIPE, stderr=subprocess.DEVNULL, text=True, timeout=300, env=core.worker_env(0))
            shutil.rmtree(tmp_tree, ignore_errors=True)
            p = os.path.join(out, "lextab.py")
            self._lextab = p if (r.returncode == 0 and os.path.exists(p)) else False
        return self._lextab

    def plant_artefacts(self):
        """Leftovers of an older release in the package directory: an optimized-lexer table of another lexer and a
        parser.out.  Nothing in the declared behaviour reads them."""
        lt = self._lextab_file()
        if lt:
            shutil.copyfile(lt, os.path.join(self.pkg, "lextab.py"))
        with open(os.path.join(self.pkg, "parser.out"), "w") as f:
            f.write("Created by PLY version 3.4 (http://www.dabeaz.com/ply)\n\nGrammar\n\nRule 0     S' -> expr\n")
        return bool(lt)

    def set_state(self, state):
        if state == "keep":
            return
        if state == "missing":
            if os.path.exists(self.pt):
                os.remove(self.pt)
            return
        if state == "valid":
            shutil.copyfile(self.valid_file, self.pt)
            return
        if state == "as_found":
            if os.path.exists(self.as_found):
                shutil.copyfile(self.as_found, self.pt)
            elif os.path.exists(self.pt):
                os.remove(self.pt)
            return
        if state == "stale_foreign":
            ff = self._foreign_file()
            if ff:
                shutil.copyfile(ff, self.pt)
            else:
                self.set_state("stale_benign")
            return
        if state == "old_version_foreign":
            # what an older PLY release would have left for the SAME grammar: right signature, older table version,
            # but tables built differently (here: a perturbed grammar's tables).  The version check must discard it.
            ff = self._foreign_file()
            if not ff:
                self.set_state("old_version")
                return
            vns = {}
            exec(compile(open(self.valid_file).read(), self.valid_file, "exec"), vns)
            ftext = open(ff).read()
            new = re.sub(r"_tabversion = '[^']*'", "_tabversion = '3.8'", ftext, count=1)
            new = re.sub(r"_lr_signature = '(?:[^'\\]|\\.)*'", lambda m: "_lr_signature = " + repr(vns["_lr_signature"]), new, count=1)
            assert new != ftext
            with open(self.pt, "w") as f:
                f.write(new)
            return
        text = open(self.valid_file).read()
        if state == "stale_benign":
            new = re.sub(r"(_lr_signature = ')", r"\1 ", text, count=1)
        elif state == "old_version":
            new = re.sub(r"_tabversion = '[^']*'", "_tabversion = '3.8'", text, count=1)
        else:
            raise ValueError(state)
        assert new != text, "state edit did not apply: " + state
        with open(self.pt, "w") as f:
            f.write(new)

    def _incarnate(self, idxs, write_fault, hashseed, want=None, pyflags=(), force_optimize=False, crash_at=None, subclass=None,
                   overlaps=(), sequential=False, entry=None):
        shutil.rmtree(os.path.join(self.pkg, "__pycache__"), ignore_errors=True)
        job = {"items": [self.W[i] for i in idxs], "write_fault": write_fault, "want_outcomes": want or [],
               "force_optimize": force_optimize, "crash_at": crash_at, "subclass": subclass,
               "reference_table": None if (force_optimize or crash_at) else self.valid_file,
               "overlaps": [[self.W[i] for i in self.overlap_groups[g]] for g in overlaps], "sequential": sequential, "entry": "cli" if entry in ("cli", "cli_dir") else entry, "cli_dir": entry == "cli_dir"}
        r = subprocess.run([core.PY] + list(pyflags) + [os.path.join(core.HERE, "incarnation.py"), self.tree], input=json.dumps(job),
                           stdout=subprocess.PIPE, stderr=subprocess.DEVNULL, text=True, timeout=900,
                           env=core.worker_env(hashseed), cwd=self.workroot)
        line = r.stdout.strip().splitlines()[-1] if r.stdout.strip() else ""
        if not line:
            return {"import_exc": "incarnation died (rc=%s)" % r.returncode, "digests": []}
        return json.loads(line)

    def _reset_durable_state(self):
        """A run starts from the pristine package directory: whatever earlier runs dropped next to the cache file (lock
        files, temp files) is removed.  WITHIN a run such droppings survive from one incarnation to the next - that is the
        durable state a restart meets."""
        for d, keep in ((self.pkg, self.pkg_files0), (self.tree, self.tree_files0)):
            for f in set(os.listdir(d)) - keep:
                p = os.path.join(d, f)
                if os.path.isdir(p) and not os.path.islink(p):
                    shutil.rmtree(p, ignore_errors=True)
                else:
                    try:
                        os.remove(p)
                    except OSError:
                        pass
        self.set_state("valid")

    def _cache_valid_now(self):
        try:
            ns = {}
            exec(compile(open(self.pt).read(), self.pt, "exec"), ns)
            nsv = {}
            exec(compile(open(self.valid_file).read(), self.valid_file, "exec"), nsv)
            return ns.get("_lr_signature") == nsv.get("_lr_signature") and ns.get("_tabversion") == nsv.get("_tabversion")
        except BaseException:  # noqa
            return False

    # ------------------------------------------------------------------ generation / execution
    def generate(self, prop, seed, tier="quick", **kw):
        rs, rf, rw = (core.stream(seed, n) for n in ("swarm", "faults", "workload"))
        n = rs.randint(2, 4 if tier == "quick" else 6)
        swarm = {"n": n, "p_write_fault": rs.choice([0.0, 0.25, 0.5]), "vary_hashseed": rs.random() < 0.6,
                 "sample": rs.choice([6, 12, 20])}
        inc = []
        for i in range(n):
            st = rf.choice(["missing", "stale_benign", "stale_foreign", "stale_foreign", "old_version", "old_version_foreign",
                            "as_found", "keep", "valid"])
            if i == 0 and st == "keep":
                st = "stale_foreign"
            wf = rf.random() < swarm["p_write_fault"]
            k = 4 if wf else swarm["sample"]
            if inc and inc[-1].get("crash_at") and rf.random() < 0.75:
                st = "keep"       # restart on exactly what the killed process left behind
            one = {"state": st, "write_fault": wf,
                   "hashseed": rf.choice([0, 1, 2, 4242, 31337]) if swarm["vary_hashseed"] else 0,
                   "pyflags": [],     # -O is swept with a baseline taken under -O; the per-item baseline here is not
                   "items": sorted(rw.sample(self.small, k))}
            if not wf and rf.random() < 0.15:
                one["crash_at"] = rf.choice(["regen_start", "table_write"])
            if rf.random() < 0.15:
                one["artefacts"] = True
            inc.append(one)
        return {"world": "tablecache", "prop": "C20", "seed": seed, "swarm": swarm, "incarnations": inc}

    def execute(self, trace, keep_events=False):
        if trace.get("subclass_cell"):
            r = self.subclass_cell(trace["subclass_cell"], trace.get("subclass_order", "base_first"))
            if r["violating"]:
                return r["violating"][0]
            return {"status": "ok", "violations": [], "trace": trace, "stats": r["stats"]}
        self._reset_durable_state()
        # baselines of sequential incarnations (the same sequence of scripts, in one process, under a valid cache) are taken
        # BEFORE the run starts, on the pristine directory - never between the run's incarnations, whose durable state they
        # would overwrite
        for inc in trace["incarnations"]:
            if inc.get("sequential"):
                key = core.digest_of([inc["items"], inc.get("entry"), inc.get("pyflags") or []])
                if key not in self.seq_base:
                    # same sequence, same interpreter flags, valid cache
                    rb = self._incarnate(inc["items"], False, 0, sequential=True, entry=inc.get("entry"), pyflags=inc.get("pyflags") or ())
                    self.seq_base[key] = dict(zip(inc["items"], rb.get("digests") or []))
                    self._reset_durable_state()
        log = core.EventLog(keep=keep_events)
        log.add("trace", decided=True, prop="C20", seed=trace.get("seed"), swarm=trace.get("swarm"),
                incarnations=trace["incarnations"])
        stats = collections.Counter()
        violations = []
        kinds = []
        prev = "valid"
        self.set_state("valid")
        for i, inc in enumerate(trace["incarnations"]):
            self.set_state(inc["state"])
            eff = inc["state"] if inc["state"] != "keep" else "keep(" + prev + ")"
            valid_before = self._cache_valid_now()
            before_files = set(os.listdir(self.pkg))
            ov = [] if (inc.get("crash_at") or inc.get("entry") or inc.get("pyflags")) else [(i + len(inc["items"])) % len(self.overlap_groups), (i + 3 + inc["items"][0]) % len(self.overlap_groups)]
            if inc.get("artefacts"):
                if self.plant_artefacts():
                    stats["artefacts_planted"] += 1
            if inc["write_fault"]:
                ov = ov[:1]           # every constructor regenerates there (0.5 s each)
            seq = bool(inc.get("sequential"))
            base = self.seq_base[core.digest_of([inc["items"], inc.get("entry"), inc.get("pyflags") or []])] if seq else self.baseline
            r = self._incarnate(inc["items"], inc["write_fault"], inc.get("hashseed", 0), pyflags=inc.get("pyflags") or (),
                                crash_at=inc.get("crash_at"), overlaps=ov, sequential=seq, entry=inc.get("entry"))
            if inc.get("entry"):
                stats["entry_" + inc["entry"]] += 1
            stats["incarnations"] += 1
            if inc.get("crash_at"):
                stats["crash_armed"] += 1
            if r.get("crashed"):
                # the process was killed before it touched the cache file: nothing to compare; the next incarnation
                # starts on whatever it left behind
                stats["crash_fired_" + r["crashed"]] += 1
                left = sorted(set(os.listdir(self.pkg)) - before_files - {"__pycache__"})
                if left:
                    stats["crash_left_files"] += 1
                kinds.append("%s:crash@%s" % (eff, r["crashed"]))
                log.add("incarnation", i=i, state=inc["state"], crashed=r["crashed"], left=left)
                prev = "valid" if self._cache_valid_now() else eff
                continue
            if inc.get("pyflags"):
                stats["interp_" + "".join(inc["pyflags"])] += 1
            stats["state_" + inc["state"]] += 1
            stats["items_parsed"] += len(inc["items"])
            if inc["write_fault"]:
                stats["write_fault_armed"] += 1
                stats["write_fault_fired"] += r.get("write_faults_fired", 0)
            if r.get("rewritten"):
                stats["cache_rewritten"] += 1
            if not valid_before:
                stats["started_with_invalid_cache"] += 1
                if self._cache_valid_now():
                    stats["cache_repaired"] += 1
            kinds.append("%s:%s:%s%s" % (eff, "ro" if inc["write_fault"] else "rw", "hs" if inc.get("hashseed", 0) else "h0",
                                         ":" + "".join(inc["pyflags"]) if inc.get("pyflags") else ""))
            log.add("incarnation", i=i, state=inc["state"], wf=inc["write_fault"], digests=r.get("digests"),
                    rewritten=r.get("rewritten"), exc=r.get("import_exc") or r.get("ctor_exc"))
            if r.get("import_exc") or r.get("ctor_exc"):
                violations.append({"oracle": "constructor_failed", "incarnation": i, "state": eff,
                                   "observed": r.get("import_exc") or r.get("ctor_exc")})
                break
            if r.get("tables_in_use_note"):
                stats["tables_in_use_uninspectable"] += 1
            if r.get("tables_in_use") is not None:
                stats["tables_in_use_checked"] += 1
                if r["tables_in_use"]:
                    violations.append({"oracle": "tables_in_use_differ", "incarnation": i, "state": eff, "write_fault": inc["write_fault"],
                                       "observed": r["tables_in_use"],
                                       "expected": "after parsing its batch in one process, a new parser still runs with the tables of the declared grammar"})
                    break
            if ov and r.get("overlap_digests") is not None:
                stats["overlap_groups_checked"] += len(ov)
                wrong = [g for g, d in zip(ov, r["overlap_digests"]) if g < len(self.overlap_base) and d != self.overlap_base[g]]
                if wrong:
                    g = wrong[0]
                    violations.append({"oracle": "overlapping_objects_differ", "incarnation": i, "state": eff, "write_fault": inc["write_fault"],
                                       "group_items": self.overlap_groups[g],
                                       "flags": [self.W[x]["flags"] for x in self.overlap_groups[g]],
                                       "expected": "three objects constructed first and run later return what they return under a valid cache",
                                       "observed": "outcomes differ from the valid-cache run of the same little history"})
                    break
            bad = [n for n, (idx, d) in enumerate(zip(inc["items"], r["digests"])) if base[idx] != d]
            stats["outcomes_compared"] += len(r["digests"])
            if bad or len(r["digests"]) != len(inc["items"]):
                n = bad[0] if bad else 0
                idx = inc["items"][n]
                # fetch the differing outcome and the valid-cache outcome for the report
                self.set_state(inc["state"] if inc["state"] != "keep" else "valid")
                violations.append({"oracle": "results_differ", "incarnation": i, "state": eff, "write_fault": inc["write_fault"],
                                   "item": idx, "ddl": core.short(self.W[idx]["ddl"], 600), "flags": self.W[idx]["flags"],
                                   "run": self.W[idx]["run"], "differing_items": len(bad)})
                break
            prev = "valid" if self._cache_valid_now() else eff
        self.set_state("valid")
        res = {"status": "violation" if violations else "ok", "violations": violations, "digest": log.digest(),
               "ops_digest": log.ops_digest(), "stats": dict(stats), "kinds": kinds, "dkey": core.digest_of(kinds)[:16],
               "trace": trace, "nevents": log.seq, "nontrivial": stats["started_with_invalid_cache"] > 0,
               "cells": sorted(set(kinds))}
        if keep_events:
            res["events"] = log.events
        return res

    def foreign_strength(self):
        """Harness probe: how many workload items come out differently when the foreign table is bound without
        PLY's signature check (i.e. how visible the 'stale signature, foreign tables' fault is if wrongly accepted)."""
        if not self._foreign_file():
            return {"status": "ok", "unavailable": True, "foreign": self.foreign_info}
        self.set_state("stale_foreign")
        try:
            r = self._incarnate(list(range(len(self.W))), False, 0, force_optimize=True)
        finally:
            self.set_state("valid")
        d = r.get("digests") or []
        differing = [i for i, x in enumerate(d) if x != self.baseline[i]]
        return {"status": "ok", "items": len(d), "differing": len(differing),
                "differing_per_chunk": [sum(1 for i in differing if i % 4 == c) for c in range(4)],
                "foreign": self.foreign_info, "ctor_exc": r.get("ctor_exc")}

    def _subclass_spec(self):
        """The perturbation used for the foreign table, as a user subclass: (rule name, index of the removed alternative)."""
        if not self._foreign_file() or not (self.foreign_info or {}).get("perturbed"):
            return None
        m = re.match(r"(\w+) minus alternative (\d+)", self.foreign_info["perturbed"])
        return {"rule": m.group(1), "drop": int(m.group(2))} if m else None

    def subclass_cell(self, state, order="base_first"):
        """A user subclass with another grammar, constructed AFTER a plain DDLParser in the same process, must parse exactly
        as it does when it is the only parser class of a process.  (PLY keeps such a class's table file next to the module
        that defines it - here a module placed in this worker's private tree.)"""
        spec = self._subclass_spec()
        out = {"status": "ok", "cells": 1, "keys": ["subclass:%s:%s" % (state, order)], "violating": [], "stats": collections.Counter()}
        if spec is None:
            out["stats"]["subclass_unavailable"] += 1
            out["stats"] = dict(out["stats"])
            return out
        self._reset_durable_state()
        idxs = [i for i in self.small if i % 4 == 0][:12]
        user_cache = os.path.join(self.tree, "parsetab.py")      # the subclass's own table file (next to its defining module)
        if os.path.exists(user_cache):
            os.remove(user_cache)
        if getattr(self, "_sub_alone", None) is None:
            self.set_state("valid")
            r0 = self._incarnate(idxs, False, 0, subclass=dict(spec, order="sub_first"))
            self._sub_alone = r0.get("digests")
        if os.path.exists(user_cache) and order == "base_first" and state == "missing":
            os.remove(user_cache)
        self.set_state(state)
        r = self._incarnate(idxs, False, 0, subclass=dict(spec, order=order))
        self.set_state("valid")
        out["stats"]["incarnations"] += 2
        out["stats"]["subclass_probes"] += 1
        out["stats"]["subclass_items_differing_from_base"] = sum(1 for a, i in zip(self._sub_alone or [], idxs) if a != self.baseline[i])
        if r.get("import_exc") or r.get("ctor_exc") or r.get("digests") != self._sub_alone:
            bad = [n for n, (a, b) in enumerate(zip(r.get("digests") or [], self._sub_alone or [])) if a != b]
            res = {"status": "violation", "stats": dict(out["stats"]),
                   "violations": [{"oracle": "subclass_tables_differ", "state": state, "order": order, "subclass": spec,
                                   "observed": r.get("ctor_exc") or r.get("import_exc") or "%d of %d items differ from the subclass-alone outcome" % (len(bad), len(idxs)),
                                   "item": idxs[bad[0]] if bad else None,
                                   "ddl": core.short(self.W[idxs[bad[0]]]["ddl"], 400) if bad else None}],
                   "trace": {"world": "tablecache", "prop": "C20", "seed": 0, "subclass_cell": state, "subclass_order": order,
                             "swarm": {"sweep": ["subclass", state, order]}}}
            out["violating"].append(res)
        out["stats"] = dict(out["stats"])
        return out

    def sweep(self, part, nparts):
        """Fault enumeration: every cache state x {writable, unwritable} x the whole workload."""
        cells = []
        nchunks = 4
        for st in ["valid", "missing", "stale_benign", "stale_foreign", "old_version", "old_version_foreign", "as_found"]:
            for wf in (False, True):
                for c in range(nchunks):
                    cells.append((st, wf, c, ()))
            # the same state met by an optimising interpreter (python -O: __debug__ is False, asserts stripped)
            cells.append((st, False, 0, ("-O",)))
        for st in ["valid", "missing", "stale_foreign", "old_version"]:
            # the process is the command-line tool (first contact with the library = importing the CLI module)
            cells.append((st, False, 2, ("cli",)))
        for st in ["missing", "missing", "missing", "stale_foreign", "stale_foreign"]:
            # directory mode of the command (repeated: if the tool works on several files at once, what happens to the
            # cache while it is being rebuilt is a matter of timing)
            cells.append((st, False, 2, ("cli_dir",)))
        for st in ["valid", "missing", "stale_foreign"]:
            # leftovers of an older release next to the cache (foreign lextab.py, parser.out)
            cells.append((st, False, 3, ("artefacts",)))
        for st in ["missing", "stale_benign", "stale_foreign", "old_version"]:
            for where in ("regen_start", "table_write"):
                # killed while regenerating, then restarted on what was left behind
                cells.append((st, False, 1, ("crash", where)))
        out = {"status": "ok", "cells": 0, "total_cells": len(cells), "keys": [], "violating": [], "stats": collections.Counter()}
        for n, (st, wf, c, pyflags) in enumerate(cells):
            if n % nparts != part:
                continue
            idxs = [i for i in range(len(self.W)) if i % nchunks == c]
            if wf:
                idxs = [i for i in idxs if i in set(self.small)][::6]     # every constructor regenerates (0.5 s each)
                idxs = sorted(set(idxs) | set(self.flag_probes))
            if pyflags and pyflags[0] in ("cli", "cli_dir"):
                plain = [i for i in idxs if i in set(self.small) and not self.W[i]["flags"] and set(self.W[i]["run"]) <= ({"output_mode"} if pyflags[0] == "cli" else set())]
                plain = plain[:14] if pyflags[0] == "cli" else plain[:40]
                trace = {"world": "tablecache", "prop": "C20", "seed": 0, "swarm": {"sweep": [st, wf, c, list(pyflags)]},
                         "incarnations": [{"state": st, "write_fault": False, "hashseed": 0, "items": plain, "entry": pyflags[0], "sequential": True}]}
            elif pyflags and pyflags[0] == "artefacts":
                trace = {"world": "tablecache", "prop": "C20", "seed": 0, "swarm": {"sweep": [st, wf, c, list(pyflags)]},
                         "incarnations": [{"state": st, "write_fault": False, "hashseed": 0, "items": idxs, "artefacts": True, "sequential": True}]}
            elif pyflags and pyflags[0] == "crash":
                trace = {"world": "tablecache", "prop": "C20", "seed": 0, "swarm": {"sweep": [st, wf, c, list(pyflags)]},
                         "incarnations": [{"state": st, "write_fault": False, "hashseed": 0, "items": idxs[:2], "crash_at": pyflags[1]},
                                          {"state": "keep", "write_fault": False, "hashseed": 0, "items": idxs, "sequential": True}]}
            else:
                trace = {"world": "tablecache", "prop": "C20", "seed": 0, "swarm": {"sweep": [st, wf, c, list(pyflags)]},
                         "incarnations": [{"state": st, "write_fault": wf, "hashseed": 0, "items": idxs, "pyflags": list(pyflags),
                                           "sequential": True}]}
            r = self.execute(trace)
            out["cells"] += 1
            out["keys"].append("%s:%s:%d%s" % (st, "ro" if wf else "rw", c, ":" + "".join(pyflags) if pyflags else ""))
            for k, v in r["stats"].items():
                out["stats"][k] += v
            if r["status"] == "violation" and len(out["violating"]) < 2:
                import shrink
                out["violating"].append(shrink.shrink(self, r))
        out["stats"] = dict(out["stats"])
        out["foreign"] = self.foreign_info
        return out

    def close(self):
        pass
