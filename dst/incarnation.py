#!/venv/bin/python
"""One incarnation of the library in a fresh interpreter ("restart: only durable state survives" —
the durable state is the table cache file in the private package copy).

  incarnation.py <tree>      job on stdin (JSON): {"items": [{"ddl","flags","run"}...], "write_fault": bool}
Prints one JSON line: per-item outcome digests (+ the outcome itself when asked), whether the cache file was
rewritten, and what the cache file looks like afterwards."""
import hashlib
import json
import os
import sys

HERE = os.path.dirname(os.path.abspath(__file__))
sys.path.insert(0, HERE)


def _sha(path):
    try:
        with open(path, "rb") as f:
            return hashlib.sha256(f.read()).hexdigest()
    except OSError:
        return None


def main():
    tree = sys.argv[1]
    job = json.loads(sys.stdin.read())
    import core
    import seams
    out_fd = os.dup(1)
    seams.silence()
    os.dup2(os.open(os.devnull, os.O_WRONLY), 1)
    sys.stdout = open(os.devnull, "w")
    sys.path.insert(0, tree)
    pt = os.path.join(tree, "simple_ddl_parser", "parsetab.py")
    before = _sha(pt)
    res = {"digests": [], "outcomes": {}, "ctor_exc": None, "import_exc": None}
    plan = None
    try:
        import simple_ddl_parser
        assert os.path.abspath(simple_ddl_parser.__file__).startswith(os.path.abspath(tree))
        from simple_ddl_parser import DDLParser
    except BaseException as e:  # noqa
        res["import_exc"] = repr(e)[:300]
        os.write(out_fd, (json.dumps(res) + "\n").encode())
        return 0
    if job.get("force_optimize"):
        # harness probe only (never part of an oracle): bind whatever table file is on disk without the signature
        # check, to measure how many workload items would betray a wrongly accepted table
        import simple_ddl_parser.parser as P
        _real = P.yacc
        P.yacc = seams._ModProxy(_real, {"yacc": lambda *a, **kw: _real.yacc(*a, **dict(kw, optimize=True))})
    if job.get("write_fault"):
        seams.install_table_seam()
        plan = seams.IoPlan([{"site": "table_write", "kind": "EACCES", "sticky": True}])
        seams.HOOKS.io = plan
    want = set(job.get("want_outcomes") or [])
    for n, it in enumerate(job["items"]):
        try:
            p = DDLParser(it["ddl"], **it.get("flags", {}))
        except BaseException as e:  # noqa
            o = ["ctor-exc", type(e).__name__, str(e)[:200]]
            if res["ctor_exc"] is None:
                res["ctor_exc"] = o
        else:
            try:
                r = p.run(**it.get("run", {}))
                o = ["ok", core.canon(r)]
            except BaseException as e:  # noqa
                o = core.outcome_of_exception(e)
        res["digests"].append(core.digest_of(o)[:20])
        if n in want or job.get("all_outcomes"):
            res["outcomes"][str(n)] = core.short(o, 1500)
    after = _sha(pt)
    res["rewritten"] = before != after
    res["cache_present_after"] = after is not None
    res["write_faults_fired"] = len(plan.fired) if plan else 0
    res["cache_sha_after"] = after
    os.write(out_fd, (json.dumps(res) + "\n").encode())
    return 0


if __name__ == "__main__":
    sys.exit(main())
