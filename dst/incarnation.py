#!/venv/bin/python
"""One incarnation of the library in a fresh interpreter ("restart: only durable state survives" —
the durable state is the table cache file in the private package copy).

  incarnation.py <tree>      job on stdin (JSON): {"items": [{"ddl","flags","run"}...], "write_fault": bool}
Prints one JSON line: per-item outcome digests (+ the outcome itself when asked), whether the cache file was
rewritten, and what the cache file looks like afterwards."""
import hashlib
import json
import os
import sys

HERE = os.path.dirname(os.path.abspath(__file__))
sys.path.insert(0, HERE)


def _sha(path):
    try:
        with open(path, "rb") as f:
            return hashlib.sha256(f.read()).hexdigest()
    except OSError:
        return None


def main():
    tree = sys.argv[1]
    job = json.loads(sys.stdin.read())
    import core
    import seams
    out_fd = os.dup(1)
    seams.silence()
    os.dup2(os.open(os.devnull, os.O_WRONLY), 1)
    sys.stdout = open(os.devnull, "w")
    sys.path.insert(0, tree)
    pt = os.path.join(tree, "simple_ddl_parser", "parsetab.py")
    before = _sha(pt)
    res = {"digests": [], "outcomes": {}, "ctor_exc": None, "import_exc": None}
    plan = None
    if job.get("entry") == "cli":
        # the process IS the command-line tool: its first contact with the library is importing the CLI module, its first
        # parser is the one main() builds.  One invocation of main() per item, in this process, in order.
        import io
        try:
            from simple_ddl_parser.cli import main as cli_main
        except BaseException as e:  # noqa
            res["import_exc"] = repr(e)[:300]
            os.write(out_fd, (json.dumps(res) + "\n").encode())
            return 0
        if job.get("cli_dir"):
            # directory mode: every item becomes a file of one directory, one invocation of main() for all of them
            d = os.path.join(os.getcwd(), "cli_dir_items")
            import shutil
            shutil.rmtree(d, ignore_errors=True)
            os.makedirs(d)
            for n, it in enumerate(job["items"]):
                try:
                    with open(os.path.join(d, "item%03d.sql" % n), "w", encoding="utf-8") as f:
                        f.write(it["ddl"])
                except (UnicodeError, OSError):
                    pass
            old_argv, old_out = sys.argv, sys.stdout
            buf = io.StringIO()
            sys.argv, sys.stdout = ["sdp", d, "--no-dump"], buf
            try:
                cli_main()
                o = ["ok", sorted(buf.getvalue().split("\n"))]        # the order in which files are listed is not specified
            except SystemExit as e:
                o = ["exit", repr(e.code), sorted(buf.getvalue().split("\n"))]
            except BaseException as e:  # noqa
                o = core.outcome_of_exception(e)
                res["ctor_exc"] = ["cli-exc", type(e).__name__, str(e)[:200]] if type(e).__name__ in ("ImportError", "ModuleNotFoundError", "YaccError", "VersionError", "SyntaxError", "AttributeError", "BrokenProcessPool") else res["ctor_exc"]
            finally:
                sys.argv, sys.stdout = old_argv, old_out
                shutil.rmtree(d, ignore_errors=True)
            res["digests"] = [core.digest_of(o)[:20]] * len(job["items"])
            after = _sha(pt)
            res["rewritten"] = before != after
            res["cache_present_after"] = after is not None
            os.write(out_fd, (json.dumps(res) + "\n").encode())
            return 0
        for n, it in enumerate(job["items"]):
            path = os.path.join(os.getcwd(), "cli_item_%d.sql" % n)
            try:
                with open(path, "w", encoding="utf-8") as f:
                    f.write(it["ddl"])
            except (UnicodeError, OSError):
                res["digests"].append("unwritable")
                continue
            argv = ["sdp", path, "--no-dump"]
            if (it.get("run") or {}).get("output_mode"):
                argv += ["-o", it["run"]["output_mode"]]
            old_argv, old_out = sys.argv, sys.stdout
            buf = io.StringIO()
            sys.argv, sys.stdout = argv, buf
            try:
                cli_main()
                o = ["ok", buf.getvalue()]
            except SystemExit as e:
                o = ["exit", repr(e.code), buf.getvalue()]
            except BaseException as e:  # noqa
                o = core.outcome_of_exception(e)
                if res["ctor_exc"] is None and type(e).__name__ in ("ImportError", "ModuleNotFoundError", "YaccError", "VersionError", "SyntaxError"):
                    res["ctor_exc"] = ["cli-exc", type(e).__name__, str(e)[:200]]
            finally:
                sys.argv, sys.stdout = old_argv, old_out
                try:
                    os.remove(path)
                except OSError:
                    pass
            res["digests"].append(core.digest_of(o)[:20])
        after = _sha(pt)
        res["rewritten"] = before != after
        res["cache_present_after"] = after is not None
        os.write(out_fd, (json.dumps(res) + "\n").encode())
        return 0
    try:
        import simple_ddl_parser
        assert os.path.abspath(simple_ddl_parser.__file__).startswith(os.path.abspath(tree))
        from simple_ddl_parser import DDLParser
    except BaseException as e:  # noqa
        res["import_exc"] = repr(e)[:300]
        os.write(out_fd, (json.dumps(res) + "\n").encode())
        return 0
    if job.get("force_optimize"):
        # harness probe only (never part of an oracle): bind whatever table file is on disk without the signature
        # check, to measure how many workload items would betray a wrongly accepted table
        import simple_ddl_parser.parser as P
        _real = P.yacc
        P.yacc = seams._ModProxy(_real, {"yacc": lambda *a, **kw: _real.yacc(*a, **dict(kw, optimize=True))})
    if job.get("write_fault"):
        seams.install_table_seam()
        plan = seams.IoPlan([{"site": "table_write", "kind": "EACCES", "sticky": True}])
        seams.HOOKS.io = plan
    if job.get("crash_at"):
        # the process dies (as by kill -9) at a point where the cache file has not been touched yet: at the start of
        # table generation, or just before the table file is opened for writing.  Whatever else the library left on
        # disk by then (lock files, temp files) survives into the next incarnation.
        def crash(site):
            os.write(out_fd, (json.dumps({"crashed": site}) + "\n").encode())
            os._exit(137)
        seams.HOOKS.crash = crash
        if job["crash_at"] == "table_write":
            seams.install_table_seam()
            plan = seams.IoPlan([{"site": "table_write", "kind": "CRASH"}])
            seams.HOOKS.io = plan
        else:
            import ply.yacc as _Y
            _Y.LRGeneratedTable = lambda *a, **k: crash("regen_start")
    want = set(job.get("want_outcomes") or [])
    sub = job.get("subclass")
    if sub:
        # A user subclass that declares ANOTHER grammar (one alternative of one rule removed): its tables must be those
        # of its own declaration, whatever was built in the process before it.  order = "base_first": a plain DDLParser
        # is constructed first; "sub_first": the subclass is the first parser class the process ever sees.
        _orig = getattr(DDLParser, sub["rule"])
        _alts = (_orig.__doc__ or "").split("|")
        _newdoc = "|".join(_alts[:sub["drop"]] + _alts[sub["drop"] + 1:])

        def _f(self, p):            # exactly (self, p): PLY validates the argument count of grammar functions
            return _orig(self, p)
        _f.__doc__ = _newdoc
        _f.__name__ = _orig.__name__
        _f.__qualname__ = _orig.__qualname__
        _f.__code__ = _f.__code__.replace(co_firstlineno=_orig.__code__.co_firstlineno, co_filename=_orig.__code__.co_filename)
        Base = DDLParser
        # PLY keeps the table file of a parser class next to the module that DEFINES the class.  The user's module of this
        # scenario lives in the incarnation's private tree (never in the harness directory, which every worker shares).
        import types as _types
        _um = _types.ModuleType("verif_userdialect")
        _um.__file__ = os.path.join(tree, "verif_userdialect.py")
        sys.modules["verif_userdialect"] = _um
        _cls_ns = {"__module__": "verif_userdialect"}
        if sub.get("order") == "base_first":
            try:
                Base("create table verif_base_first (a int not null);").run()
            except BaseException as e:  # noqa
                res["ctor_exc"] = ["ctor-exc", type(e).__name__, str(e)[:200]]
        if sub.get("order") == "mutate_after_first":
            # the class exists (and one object of it was built) BEFORE a plug-in changes its grammar in place
            DDLParser = type("UserDialect", (Base,), dict(_cls_ns))
            try:
                DDLParser("create table verif_before_plugin (a int not null);").run()
            except BaseException as e:  # noqa
                res["ctor_exc"] = ["ctor-exc", type(e).__name__, str(e)[:200]]
            setattr(DDLParser, sub["rule"], _f)
        else:
            DDLParser = type("UserDialect", (Base,), dict(_cls_ns, **{sub["rule"]: _f}))

    def one(it):
        try:
            p = DDLParser(it["ddl"], **it.get("flags", {}))
        except BaseException as e:  # noqa
            return ["ctor-exc", type(e).__name__, str(e)[:200]]
        try:
            return ["ok", core.canon(p.run(**it.get("run", {})))]
        except BaseException as e:  # noqa
            return core.outcome_of_exception(e)

    # The process start is what C20 is about: the first constructor meets the cache state (loads / rejects / regenerates /
    # rewrites it).  It runs here, in the incarnation itself.  The workload items are then parsed one per forked child of
    # this process, so every item sees "this process after its start-up" and nothing of the other items: a defect of
    # repeated use inside one process (C14 / C15) then shifts baseline and sample alike and is not reported against C20,
    # while "second and later parser objects of the process use other tables than the first" still is.
    # Item 0 is parsed by the FIRST parser object of the process (the one that met the cache state); it is constructed
    # now and run last, so the children fork from "first object constructed, nothing parsed yet".
    items = job["items"]
    p0, o0 = None, None
    if items:
        try:
            p0 = DDLParser(items[0]["ddl"], **items[0].get("flags", {}))
        except BaseException as e:  # noqa
            o0 = ["ctor-exc", type(e).__name__, str(e)[:200]]
    import isolate
    if job.get("overlaps") and not sub:
        # several parser objects of this process alive at once: all constructed first, then run in reverse order.  Executed
        # in a forked child taken right after the first parser object was constructed (before anything was parsed), so its
        # history is the same in every incarnation; the same little history under a valid cache is the baseline, so only a
        # dependence on the CACHE STATE (e.g. objects sharing freshly generated tables) can make a difference here.
        def overlap_phase(group):
            digs = []
            for group in [group]:
                objs = []
                for it in group:
                    try:
                        objs.append(DDLParser(it["ddl"], **it.get("flags", {})))
                    except BaseException as e:  # noqa
                        objs.append(e)
                outs_ = []
                for it, p in reversed(list(zip(group, objs))):
                    if isinstance(p, BaseException):
                        outs_.append(["ctor-exc", type(p).__name__])
                        continue
                    try:
                        outs_.append(["ok", core.canon(p.run(**it.get("run", {})))])
                    except BaseException as e:  # noqa
                        outs_.append(core.outcome_of_exception(e))
                digs.append([core.digest_of(o)[:20] for o in outs_])
                del objs
            return digs
        res["overlap_digests"] = []
        for group in job["overlaps"]:           # one fork per group: a group's history is "first object constructed" only
            try:
                res["overlap_digests"] += isolate.run_isolated(lambda g=group: overlap_phase(g), timeout=300)
            except RuntimeError as e:
                res["overlap_digests"].append(["harness", str(e)[:100]])
    outs = [None] * len(items)
    for n, it in enumerate(items):
        if n == 0:
            continue
        if job.get("sequential"):
            # sweep cells: the whole chunk in this one process, in order; the baseline is the SAME sequence under a valid
            # cache, so whatever one script does to the next is the same on both sides
            outs[n] = one(it)
            continue
        try:
            outs[n] = isolate.run_isolated(lambda it=it: one(it), timeout=300)
        except RuntimeError as e:
            outs[n] = ["harness", str(e)[:200]]
    if items:
        if p0 is not None:
            try:
                o0 = ["ok", core.canon(p0.run(**items[0].get("run", {})))]
            except BaseException as e:  # noqa
                o0 = core.outcome_of_exception(e)
        outs[0] = o0
    for n, o in enumerate(outs):
        if o[0] == "ctor-exc" and res["ctor_exc"] is None:
            res["ctor_exc"] = o
        res["digests"].append(core.digest_of(o)[:20])
        if n in want or job.get("all_outcomes"):
            res["outcomes"][str(n)] = core.short(o, 1500)
    if job.get("reference_table") and not sub:
        # the tables a parser of this process RUNS WITH, after the process parsed a batch of scripts one after another
        # (no forks): they must still be exactly the tables of the declared grammar
        import workload
        for it in items + [{"ddl": e, "flags": {"silent": False}} for e in workload.ERROR_SHAPES]:
            try:
                DDLParser(it["ddl"], **it.get("flags", {})).run(**it.get("run", {}))
            except BaseException:  # noqa   (the error paths of the grammar are part of what a process goes through)
                pass
        try:
            ns = {}
            with open(job["reference_table"]) as f:
                exec(compile(f.read(), job["reference_table"], "exec"), ns)
            live = DDLParser("create table verif_tables_in_use (a int);").yacc
            diffs = []
            ne = lambda t: dict((s, d) for s, d in t.items() if d)      # noqa: E731  a generated table keeps empty rows the file omits
            la, ra, lg, rg = ne(live.action), ne(ns["_lr_action"]), ne(live.goto), ne(ns["_lr_goto"])
            if la != ra:
                bad = [s for s in set(la) | set(ra) if la.get(s) != ra.get(s)]
                diffs.append("actions differ in %d states, e.g. state %s" % (len(bad), sorted(bad)[:3]))
            if lg != rg:
                bad = [s for s in set(lg) | set(rg) if lg.get(s) != rg.get(s)]
                diffs.append("gotos differ in %d states, e.g. state %s" % (len(bad), sorted(bad)[:3]))
            lp = [(p.str, p.name, p.len) for p in live.productions]
            rp = [(p[0], p[1], p[2]) for p in ns["_lr_productions"]]
            if lp != rp:
                diffs.append("productions differ")
            res["tables_in_use"] = diffs
        except BaseException as e:  # noqa
            # the parser object does not expose PLY's tables in the usual place / shape: nothing to compare (a probe in the
            # evidence, never an alarm)
            res["tables_in_use"] = None
            res["tables_in_use_note"] = "could not inspect: %r" % (e,)
    if os.environ.get("VERIF_DEBUG_TORN") and res.get("ctor_exc") and "SyntaxError" in str(res["ctor_exc"]):
        import shutil, subprocess, time as _t
        d = "/dev/shm/torn-%d" % os.getpid()
        os.makedirs(d, exist_ok=True)
        try:
            shutil.copyfile(pt, d + "/parsetab.py")
        except OSError:
            pass
        with open(d + "/info.txt", "w") as f:
            f.write(json.dumps({k: job.get(k) for k in ("write_fault", "crash_at", "subclass", "sequential", "force_optimize")}) + "\n")
            f.write(subprocess.run(["ps", "-eo", "pid,ppid,etimes,cmd"], stdout=subprocess.PIPE, text=True).stdout)
    after = _sha(pt)
    res["rewritten"] = before != after
    res["cache_present_after"] = after is not None
    res["write_faults_fired"] = len(plan.fired) if plan else 0
    res["cache_sha_after"] = after
    os.write(out_fd, (json.dumps(res) + "\n").encode())
    return 0


if __name__ == "__main__":
    sys.exit(main())
