"""The `parsers` world: C14 (solo-lifetime histories on one object / successive objects, with
cancellation faults) and C15 (overlapping lifetimes of 2..4 parser objects under op-level,
statement-level and line-level thread schedules).

Generation (seed -> explicit trace) and execution (explicit trace -> events, violations) are
separate, so a replay file is just a trace and the shrinker edits traces."""
import gc
import hashlib
import itertools
import json
import os
import shutil
import sys

import core
import gstate
import simenv
import reference
import sched
import seams
import workload

BAD_MODE = "no_such_output_mode"
# per-run focus file for dense line-level pre-emption (None = uniform)
FOCUS = [None, "/output/", "/output/", "/output/table_data.py", "/output/core.py", "simple_ddl_parser/parser.py",
         "simple_ddl_parser/ddl_parser.py", "/dialects/", "simple_ddl_parser/utils.py", "/ply/lex.py", "/ply/yacc.py"]


def _snapshot(root):
    out = {}
    for d, dirs, files in os.walk(root):
        dirs.sort()
        rel = os.path.relpath(d, root)
        if rel != ".":
            out[rel + "/"] = "dir"
        for f in sorted(files):
            p = os.path.join(d, f)
            try:
                with open(p, "rb") as fh:
                    out[os.path.relpath(p, root)] = hashlib.sha1(fh.read()).hexdigest()
            except OSError:
                out[os.path.relpath(p, root)] = "unreadable"
    return out


def _snap_diff(a, b):
    ch = []
    for k in sorted(set(a) | set(b)):
        if a.get(k) != b.get(k):
            ch.append([k, "created" if k not in a else ("removed" if k not in b else "changed")])
    return ch


class ParsersWorld:
    def __init__(self, tree, workroot, ref, ref_x=None):
        self.tree = tree
        self.workroot = workroot
        self.ref = ref
        self.ref_x = ref_x          # pristine reference in an interpreter with ANOTHER hash seed (C14 only)
        # before the library is imported: locks it creates (module level or later) are owned by the scheduler
        self.lib_prefix = os.path.join(os.path.abspath(tree), "simple_ddl_parser") + os.sep
        sched.install_lock_seam(self.lib_prefix)
        simenv.install_datetime()        # before the import: now()/today() read the simulated clock of the run
        import simple_ddl_parser
        assert os.path.abspath(simple_ddl_parser.__file__).startswith(os.path.abspath(tree))
        from simple_ddl_parser import DDLParser, parse_from_file
        from simple_ddl_parser.output.dialects import dialect_by_name
        self.DDLParser = DDLParser
        self.parse_from_file = parse_from_file
        self.modes = sorted(dialect_by_name)
        seams.install_parser_seams()
        seams.install_file_seams()       # now, not lazily inside a run: the global-state probe must not see the harness
        seams.install_syscall_seam(self.lib_prefix)
        import ply
        self.trace_prefixes = (os.path.join(os.path.abspath(tree), "simple_ddl_parser") + os.sep,
                               os.path.dirname(os.path.abspath(ply.__file__)) + os.sep)
        self.runs_done = 0
        # The worker itself never constructs a parser: every run executes in a forked child (isolate.py) that
        # starts from a process in which the package (and the table data module) is imported but NO parser has
        # ever existed - so the first object of a run really is the first object of its process ("first object
        # ever built becomes the master" defects are visible), exactly like the pristine reference.
        try:
            import simple_ddl_parser.parsetab  # noqa: F401  (data only; builds no lexer / parser)
        except BaseException:  # noqa
            sys.modules.pop("simple_ddl_parser.parsetab", None)

    # ------------------------------------------------------------------ generation: C14
    def gen_c14(self, seed, tier="quick"):
        rs, ro, rw, rf = (core.stream(seed, n) for n in ("swarm", "ops", "workload", "faults"))
        swarm = {
            "faults": rs.random() < 0.5,
            "nops": rs.randint(2, 9),
            "p_corpus": rs.choice([0.3, 0.6, 0.9]),
            "line_cancel": rs.random() < (0.25 if tier == "quick" else 0.4),
            "p_new": rs.choice([0.1, 0.2, 0.35]),
        }
        if rs.random() < (0.04 if tier == "quick" else 0.1):
            # marathon arm: one long-lived process, many objects (runs are otherwise short and each starts
            # from a pristine process image)
            swarm.update(nops=rs.choice([25, 40, 60]), p_new=0.45, marathon=True)
        ops = []
        cur = None
        last_kw = None
        for i in range(swarm["nops"]):
            r = ro.random()
            if cur is None or r < swarm["p_new"]:
                if cur is not None and ro.random() < 0.35:
                    # a fresh object over the SAME text with other constructor flags (anything keyed by
                    # the text alone - a memo, a shared lexer - shows here)
                    flags = dict(cur["flags"])
                    t = ro.random()
                    if t < 0.7:
                        if flags.get("normalize_names"):
                            flags.pop("normalize_names")
                        else:
                            flags["normalize_names"] = True
                    if t >= 0.4:
                        if flags.get("silent", True) is False:
                            flags.pop("silent")
                        else:
                            flags["silent"] = False
                    it = {"ddl": cur["ddl"], "flags": flags, "run": dict(cur["run"]),
                          "src": cur["src"].split("+")[0] + "+reflag"}
                elif cur is not None and ro.random() < 0.12:
                    # a fresh object over ANOTHER text of exactly the same length (the previous object is dropped first)
                    it = {"ddl": workload.same_length_variant(ro, cur["ddl"]), "flags": dict(cur["flags"]), "run": dict(cur["run"]),
                          "src": cur["src"].split("+")[0] + "+samelen"}
                elif cur is not None and ro.random() < 0.25 and workload.tables_of(cur["ddl"]):
                    # a fresh object whose script only alters / indexes the PREVIOUS object's tables
                    ddl, shape = workload.gen_followup(ro, workload.tables_of(cur["ddl"]))
                    it = {"ddl": ddl, "flags": dict(cur["flags"]), "run": dict(cur["run"]), "src": "gen:" + ",".join(shape)}
                else:
                    it = None
                    if cur is not None and ro.random() < 0.3:
                        it = workload.pick_related(ro, cur["src"])
                    if it is None:
                        # now and then one of the few really large scripts of the corpus (100 KB)
                        it = workload.pick_item(rw, swarm["p_corpus"], max_len=200000 if ro.random() < 0.02 else 6000)
                if core.stream(seed, "crlf:%d" % i).random() < 0.07 and "\r" not in it["ddl"]:
                    # the caller hands over text with CR LF line ends (read in binary mode, received over the wire)
                    it = dict(it, ddl=it["ddl"].replace("\n", "\r\n"), src=it["src"] + "+crlf")
                cur = it
                last_kw = None
                ops.append({"op": "new", "ddl": it["ddl"], "flags": it["flags"], "src": it["src"]})
                continue
            r = ro.random()
            if r < 0.05:
                ops.append({"op": "run_bad_mode"})
                continue
            if r < 0.15:
                kw = workload.pick_run_kwargs(ro, self.modes, cur["run"])
                fop = {"op": "from_file", "kw": kw, "name": ro.choice(["in.sql", "x.ddl", "t.hql"])}
                if ro.random() < 0.08:
                    # a settings key the constructor does not know: today a TypeError on both sides, every time
                    fop["settings_extra"] = {"encoding": "utf-8"}
                ops.append(fop)
                if ro.random() < 0.3:
                    ops.append(dict(fop))        # the same call again with an equal settings dict
                continue
            rr = ro.random()
            if last_kw is not None and rr < 0.3:
                kw = dict(last_kw)
            elif rr < 0.55:
                kw = dict(cur["run"])
            else:
                kw = workload.pick_run_kwargs(ro, self.modes, cur["run"])
            last_kw = kw
            op = {"op": "run", "kw": kw}
            if ro.random() < 0.12:
                # the caller scribbles over the result it got (it owns it): later calls must not be affected
                op["scribble"] = True
            if ro.random() < 0.08:
                op["in_handler"] = True
            if r < 0.27:
                op["dump"] = {"dump_path": ro.choice(["schemas", "out/d", "."]),
                              "file_path": ro.choice([None, "some/dir/tables.sql", "a.b.sql"])}
                if op["dump"]["file_path"] is None:
                    del op["dump"]["file_path"]
            elif r < 0.36:
                # dump NOT requested although dump_path / file_path are given: nothing may be written
                op["nodump_args"] = {"dump_path": ro.choice(["schemas", "out/d", "."])}
                if ro.random() < 0.7:
                    op["nodump_args"]["file_path"] = ro.choice(["some/dir/tables.sql", "t.sql"])
            if swarm["faults"]:
                f = rf.random()
                if f < 0.22:
                    op["cancel"] = {"stmt": rf.choice([1, 1, 2, 2, 3, 4, 6, 9])}
                elif f < 0.34 and swarm["line_cancel"]:
                    op["cancel"] = {"line": int(2 ** rf.uniform(3, 15))}
                    if core.stream(seed, "alloc:%d" % i).random() < 0.5:
                        op["cancel"]["as"] = rf.choice(["MemoryError", "MemoryError", "RecursionError"])
                    rfo = core.stream(seed, "cfocus:%d" % i)
                    if rfo.random() < 0.45:
                        # the n-th line executed inside one part of the library (the output stage runs after all parsing)
                        op["cancel"]["focus"] = rfo.choice(["/output/", "/output/", "/output/base_data.py", "/output/table_data.py", "/output/core.py",
                                                            "/output/dialects.py", "/dialects/", "/utils.py", "/ddl_parser.py"])
                        op["cancel"]["line"] = int(2 ** rfo.uniform(0, 9))
                elif f < 0.42 and "dump" in op:
                    op["dump_fault"] = rf.choice(["EACCES", "ENOSPC", "EIO"])
                    if core.stream(seed, "dfsys:%d" % i).random() < 0.4:
                        op["dump_fault_sys"] = True
            ops.append(op)
        rc = core.stream(seed, "clock")
        swarm["clock"] = rc.random() < 0.5
        if swarm["clock"]:
            # the simulated clock jumps between operations (a tick ... a month; the wall clock also steps backwards)
            for op in ops:
                if rc.random() < 0.5:
                    j = simenv.draw_jump(rc)
                    if j:
                        op["clock"] = j
        return {"world": "parsers", "prop": "C14", "seed": seed, "swarm": swarm, "ops": ops}

    # ------------------------------------------------------------------ execution: C14
    def exec_c14(self, trace, keep_events=True):
        log = core.EventLog(keep=keep_events)
        log.add("trace", decided=True, prop="C14", seed=trace.get("seed"), swarm=trace.get("swarm"),
                ops=trace["ops"])
        cwd = os.path.join(self.workroot, "c14-%d" % self.runs_done)
        self.runs_done += 1
        shutil.rmtree(cwd, ignore_errors=True)
        os.makedirs(cwd)
        os.chdir(cwd)
        need_trace = any("line" in (op.get("cancel") or {}) for op in trace["ops"])
        st = {"violations": [], "stats": {"ops": 0, "refs": 0, "cancel_stmt_fired": 0, "cancel_line_fired": 0,
                                           "dump_fault_fired": 0, "reruns": 0, "mode_changes": 0,
                                           "after_fault_checks": 0, "stmts": 0, "cancel_in_multi": 0,
                                           "objects": 0, "exc_outcomes": 0, "refs_other_hashseed": 0,
                                           "global_state_changed": 0, "victims_run": 0, "nodump_with_paths": 0, "from_file_other_process": 0, "results_scribbled": 0, "runs_inside_handler": 0, "reflag_objects": 0, "followup_objects": 0,
                                           "marathon_runs": 1 if (trace.get("swarm") or {}).get("marathon") else 0},
              "kinds": []}
        chooser = sched.ListChooser([])
        S = sched.Scheduler(chooser, labels=(), trace_prefixes=self.trace_prefixes if need_trace else None,
                            trace_exclude=("parsetab.py",))
        ctx = {"stmt_n": 0, "cancel_stmt": None, "fired": None}

        def point(label, obj=None):
            if label == "before_stmt":
                ctx["stmt_n"] += 1
                st["stats"]["stmts"] += 1
                if ctx["cancel_stmt"] is not None and ctx["stmt_n"] == ctx["cancel_stmt"]:
                    ctx["cancel_stmt"] = None
                    ctx["fired"] = "stmt"
                    if ctx["stmt_n"] >= 2:
                        st["stats"]["cancel_in_multi"] += 1
                    raise sched.SimCancel("stmt %d" % ctx["stmt_n"])
        S.on_event = lambda kind, tid, n: ctx.__setitem__("fired", "line")

        def body(task):
            try:
                self._c14_body(trace, log, st, ctx, task, S, cwd)
            finally:
                sys.settrace(None)

        seams.HOOKS.point = point
        seams.HOOKS.io = None
        clk = simenv.SimClock(self.lib_prefix).install()
        ctx["clock"] = clk
        hung = None
        try:
            S.add_task("t", body)
            try:
                S.run()
            except sched.Blocked as e:
                # the only task of the history waits for a lock it (or an interrupted call of its own) left held: a hang
                # after an injected line-granularity fault.  Counted and set aside (the faults C14 injects at arbitrary lines
                # include instants at which only an asynchronous signal could strike); never a VIOLATION, never a crash of
                # the check
                hung = str(e)
        finally:
            simenv.uninstall()
            seams.HOOKS.point = lambda *a, **k: None
            seams.HOOKS.io = None
            os.chdir(self.workroot)
            shutil.rmtree(cwd, ignore_errors=True)
        st["stats"].update(clock_jumps=clk.jumps, clock_reads_by_library=clk.lib_reads, clock_slept_s=int(clk.slept), clock_jumped_s=int(clk.jumped_s))
        self._env_stats(st["stats"])
        if hung:
            return {"status": "inconclusive", "why": hung, "trace": trace, "digest": log.digest(), "ops_digest": log.ops_digest(),
                    "stats": st["stats"]}
        return self._result(st.get("trace_override") or trace, log, st, extra={"line_points": S.line_points})

    def _c14_body(self, trace, log, st, ctx, task, S, cwd):
        obj, cur = None, None
        gs = gstate.snapshot()
        swept = set()
        held = []          # [op index, returned object, digest at return time]
        faulted_before = False
        prev_kw = None
        stats = st["stats"]
        for i, op in enumerate(trace["ops"]):
            stats["ops"] += 1
            kind = op["op"]
            if S.trace_prefixes and not any("line" in (o.get("cancel") or {}) for o in trace["ops"][i:]):
                sys.settrace(None)      # no line-granularity fault ahead: the rest of the history runs untraced
            if op.get("clock"):
                ctx["clock"].jump(float(op["clock"]))
            before = _snapshot(cwd)
            entitled_files = False
            expected = None
            outcome = None
            faulted = False
            settings_before = None
            ref_args = None
            prefetched_x = None
            if kind == "new":
                cur = {"ddl": op["ddl"], "flags": dict(op["flags"])}
                prev_kw = None
                stats["objects"] += 1
                src = op.get("src") or ""
                if src.endswith("+reflag"):
                    stats["reflag_objects"] += 1
                elif src.startswith("gen:followup"):
                    stats["followup_objects"] += 1
                obj = None          # the previous object is abandoned (and collected) BEFORE the next one is built
                gc.collect()
                try:
                    obj = self.DDLParser(cur["ddl"], **cur["flags"])
                    outcome = ["constructed"]
                except Exception as e:  # noqa
                    obj = None
                    outcome = ["ctor-exc"] + core.outcome_of_exception(e)[1:]
                log.add("op", i=i, op="new", src=op.get("src"), outcome=outcome[0])
                st["kinds"].append("new")
            elif obj is None:
                log.add("op", i=i, op=kind, skipped="no object")
                continue
            elif kind == "run_bad_mode":
                try:
                    r = obj.run(output_mode=BAD_MODE)
                    outcome = ["ok", core.canon(r)]
                except Exception as e:  # noqa
                    outcome = core.outcome_of_exception(e)
                ref_args = (cur["ddl"], cur["flags"], {"output_mode": BAD_MODE})
                expected, prefetched_x = self._ref_pair(ref_args)
                stats["refs"] += 1
                st["kinds"].append("bad_mode")
            elif kind == "from_file":
                os.makedirs(os.path.join(cwd, "in"), exist_ok=True)
                path = os.path.join(cwd, "in", op["name"])
                with open(path, "w", encoding="utf-8") as f:
                    f.write(cur["ddl"])
                before = _snapshot(cwd)
                settings = dict(cur["flags"])
                if op.get("settings_extra"):
                    settings.update(op["settings_extra"])
                settings_before = core.cjson(core.canon(settings))
                try:
                    r = self.parse_from_file(path, parser_settings=settings, **op["kw"])
                    outcome = ["ok", core.canon(r)]
                    held.append([i, r, core.digest_of(core.canon(r))])
                except UnicodeError:
                    outcome = None   # text not encodable as utf-8 text file: not this property
                except Exception as e:  # noqa
                    outcome = core.outcome_of_exception(e)
                if core.cjson(core.canon(settings)) != settings_before:
                    st["violations"].append({"oracle": "args_modified", "op_index": i,
                                             "expected": settings_before, "observed": core.canon(settings)})
                if outcome is not None:
                    # what parse_from_file hands to the parser is the DECODED file content: universal newlines
                    ref_args = (cur["ddl"].replace("\r\n", "\n").replace("\r", "\n"), dict(cur["flags"], **(op.get("settings_extra") or {})), op["kw"])
                    expected, prefetched_x = self._ref_pair(ref_args)
                    if expected and expected[0] == "ctor-exc":
                        expected = ["exc"] + list(expected[1:])      # through parse_from_file a constructor error is just an error
                    stats["refs"] += 1
                    if self.ref_x is not None and outcome == expected and not op.get("settings_extra"):
                        # the very same call in another process (other hash seed, plain C locale) yields an equal result
                        other = self.ref_x.from_file(path, cur["flags"], op["kw"])
                        stats["from_file_other_process"] += 1
                        if other != outcome:
                            st["violations"].append({"oracle": "other_process_differs", "op_index": i, "op": kind,
                                                     "environment": dict(reference.OTHER_ENV, PYTHONHASHSEED=str(self.ref_x.hashseed)),
                                                     "expected": core.short(outcome, 600), "observed": core.short(other, 600),
                                                     "diff": core.first_diff(outcome, other)})
                st["kinds"].append("from_file")
            elif kind == "run":
                kw = dict(op["kw"])
                ref_kw = dict(kw)
                if "dump" in op:
                    kw["dump"] = True
                    kw.update(op["dump"])
                    ref_kw = dict(kw)
                    entitled_files = True
                elif "nodump_args" in op:
                    kw.update(op["nodump_args"])
                    if op["nodump_args"].get("file_path"):
                        kw["dump"] = False
                    ref_kw = dict(kw)
                    stats["nodump_with_paths"] += 1
                if prev_kw is not None:
                    stats["reruns"] += 1
                    if prev_kw.get("output_mode", "sql") != op["kw"].get("output_mode", "sql"):
                        stats["mode_changes"] += 1
                prev_kw = op["kw"]
                ctx["stmt_n"] = 0
                ctx["fired"] = None
                c = op.get("cancel") or {}
                ctx["cancel_stmt"] = c.get("stmt")
                task.lines = 0
                task.cancel_at_line = c.get("line")
                task.cancel_focus = c.get("focus")
                task.focus_lines = 0
                task.cancel_exc = {"MemoryError": MemoryError, "RecursionError": RecursionError}.get(c.get("as"))
                plan = None
                if op.get("dump_fault"):
                    if op.get("dump_fault_sys"):
                        # raised by the first os-level call of the dump that is not a stat (mkdir / open), whatever API
                        # the library reaches it through
                        plan = seams.IoPlan([{"site": "sys", "at": 1, "kind": op["dump_fault"]}])
                        seams.HOOKS.sys = plan.on_sys
                    else:
                        plan = seams.IoPlan([{"site": "dump_open", "kind": op["dump_fault"]}])
                    seams.install_file_seams()
                    seams.HOOKS.io = plan
                try:
                    if op.get("in_handler"):
                        # the caller is in the middle of handling an unrelated error (the usual strict-then-lenient
                        # fallback): sys.exc_info() is not empty while run() executes
                        try:
                            raise RuntimeError("caller is handling an error")
                        except RuntimeError:
                            r = obj.run(**kw)
                        stats["runs_inside_handler"] += 1
                    else:
                        r = obj.run(**kw)
                    outcome = ["ok", core.canon(r)]
                    held.append([i, r, core.digest_of(core.canon(r))])
                except sched.SimCancel:
                    outcome = ["cancelled"]
                    faulted = True
                    if S.trace_prefixes:
                        sys.settrace(S._global_trace)
                except Exception as e:  # noqa
                    outcome = core.outcome_of_exception(e)
                finally:
                    ctx["cancel_stmt"] = None
                    task.cancel_at_line = None
                    task.cancel_exc = None
                    seams.HOOKS.io = None
                    seams.HOOKS.sys = None
                if ctx["fired"] == "line" and c.get("as"):
                    # the call met a failing allocation: whether it raised or swallowed it, its own outcome is not judged;
                    # every later call is
                    faulted = True
                    stats["alloc_fault_fired"] = stats.get("alloc_fault_fired", 0) + 1
                    if outcome and outcome[0] == "ok":
                        stats["alloc_fault_swallowed"] = stats.get("alloc_fault_swallowed", 0) + 1
                        held.pop()
                if ctx["fired"] == "stmt":
                    stats["cancel_stmt_fired"] += 1
                elif ctx["fired"] == "line":
                    stats["cancel_line_fired"] += 1
                if plan is not None and plan.fired:
                    stats["dump_fault_fired"] += 1
                    faulted = True
                if not faulted:
                    ref_args = (cur["ddl"], cur["flags"], ref_kw)
                    expected, prefetched_x = self._ref_pair(ref_args)
                    stats["refs"] += 1
                    if faulted_before:
                        stats["after_fault_checks"] += 1
                st["kinds"].append("run" + ("+dump" if "dump" in op else "") +
                                   ("+cancel" if ctx["fired"] else "") +
                                   ("+dumpfault" if plan is not None and plan.fired else ""))
            if kind != "new":
                log.add("op", i=i, op=kind, outcome=outcome, fired=ctx.get("fired") if kind == "run" else None)
            if outcome and outcome[0] == "exc":
                stats["exc_outcomes"] += 1
            # oracle 1: refinement of the stateless model
            if expected is not None and outcome is not None and outcome != expected:
                st["violations"].append({"oracle": "refinement", "op_index": i, "op": kind,
                                         "expected": core.short(expected, 600), "observed": core.short(outcome, 600),
                                         "diff": core.first_diff(expected, outcome),
                                         "after_fault": faulted_before})
            # oracle 1b: a pristine process under ANOTHER hash seed returns an equal result (both sides are
            # pristine single-use processes, so a difference is attributable to the hash seed alone)
            if expected is not None and self.ref_x is not None and not st["violations"] and ref_args is not None:
                expected_x = prefetched_x if prefetched_x is not None else self.ref_x(*ref_args)
                if expected_x and expected_x[0] == "ctor-exc" and expected[0] == "exc":
                    expected_x = ["exc"] + list(expected_x[1:])      # same normalisation as applied to `expected` above
                stats["refs_other_hashseed"] += 1
                if expected_x != expected:
                    st["violations"].append({"oracle": "other_environment_differs", "op_index": i, "op": kind,
                                             "environments": [{"PYTHONHASHSEED": os.environ.get("PYTHONHASHSEED")},
                                                              dict(reference.OTHER_ENV, PYTHONHASHSEED=str(self.ref_x.hashseed),
                                                                   python_O=bool(self.ref_x.optimize), clock="years ahead", logging="root logger configured by the application (DEBUG, NullHandler)",
                                                                   variables_read_at_import_and_flipped=self.ref_x.import_env,
                                                                   variables_read_and_flipped=self.ref_x.env_dependent[-3:])],
                                             "expected": core.short(expected, 600), "observed": core.short(expected_x, 600),
                                             "diff": core.first_diff(expected, expected_x)})
            if kind == "run" and op.get("scribble") and held and held[-1][0] == i and not st["violations"]:
                # the caller modifies the object it was handed, everywhere it can.  A result must not be a window onto
                # state that later calls read (module constants, parser attributes).  Other held results that share
                # sub-objects with it are re-baselined, not reported: the property says nothing about two results
                # being disjoint.
                _scribble(held[-1][1])
                held.pop()
                for h in held:
                    h[2] = core.digest_of(core.canon(h[1]))
                stats["results_scribbled"] += 1
            # oracle 2: returned results are never modified
            for (j, val, dg) in held:
                if core.digest_of(core.canon(val)) != dg:
                    st["violations"].append({"oracle": "result_mutated", "op_index": i, "held_from_op": j,
                                             "observed": core.short(core.canon(val), 600)})
                    break
            # oracle 3: no files unless a dump was requested
            after = _snapshot(cwd)
            ch = _snap_diff(before, after)
            if ch and not entitled_files:
                st["violations"].append({"oracle": "side_effect_files", "op_index": i, "op": kind, "observed": ch})
            if faulted:
                faulted_before = True
            if st["violations"]:
                break
            # probe (not an oracle): did this op change process-global library state?  If so, look for a victim now.
            gs2 = gstate.snapshot()
            ch = gstate.changed(gs, gs2)
            gs = gs2
            if ch and not set(ch) <= swept and len(swept) < 40:
                swept.update(ch)
                stats["global_state_changed"] += 1
                log.add("global_state_changed", i=i, keys=ch[:8])
                if self._victim_sweep(i, ch, trace, st, log):
                    break

    def _env_stats(self, stats):
        """What the other-environment reference sensed while it answered this run's requests (counters of this child)."""
        rx = self.ref_x
        if rx is None:
            return
        stats["env_reads_by_library"] = sum(rx.env_keys_sensed.values())
        stats["env_flip_evaluations"] = rx.env_flips
        stats["env_dependent_outcomes"] = len(rx.env_dependent)
        for name in getattr(rx, "optional_imports_missing", ()):
            stats["optional_import_missing:" + name] = 1

    def _ref_pair(self, ref_args):
        """The same request to both pristine references at once (same hash seed; other hash seed and locale)."""
        if self.ref_x is None:
            return self.ref(*ref_args), None
        t1 = self.ref.begin(*ref_args)
        t2 = self.ref_x.begin(*ref_args)
        return self.ref.finish(t1), self.ref_x.finish(t2)

    def _victim_sweep(self, i, ch, trace, st, log):
        """Op i changed process-global library state: run a seeded sample of corpus scripts on fresh objects in this
        same process and compare each with the pristine reference.  A mismatch is an ordinary refinement violation;
        the reported trace is made explicit (ops up to i + the victim's new/run) so replay needs no sweep."""
        stats = st["stats"]
        rv = core.stream(int(trace.get("seed") or 0), "victims:%d" % i)
        c = core.corpus()
        idxs = [n for n in range(len(c)) if len(c[n]["ddl"]) <= 6000]
        for idx in rv.sample(idxs, min(len(idxs), 96)):
            it = c[idx]
            stats["victims_run"] += 1
            try:
                r = self.DDLParser(it["ddl"], **it["flags"]).run(**it["run"])
                outcome = ["ok", core.canon(r)]
            except Exception as e:  # noqa
                outcome = core.outcome_of_exception(e)
            expected = self.ref(it["ddl"], it["flags"], it["run"])
            if outcome != expected:
                ops = [dict(o) for o in trace["ops"][:i + 1]]      # faults included: an interrupted run may be the polluter
                ops += [{"op": "new", "ddl": it["ddl"], "flags": dict(it["flags"]), "src": "corpus:%d" % idx},
                        {"op": "run", "kw": dict(it["run"])}]
                st["trace_override"] = dict(trace, ops=ops)
                st["violations"].append({"oracle": "refinement", "op_index": len(ops) - 1, "op": "run", "found_by": "victim sweep",
                                         "polluted_by_op": i, "changed_global_state": ch[:6],
                                         "expected": core.short(expected, 600), "observed": core.short(outcome, 600),
                                         "diff": core.first_diff(expected, outcome)})
                log.add("victim", i=i, victim=idx, outcome=outcome)
                return True
        return False

    # ------------------------------------------------------------------ generation: C15
    def gen_c15(self, seed, tier="quick", gran=None):
        rs, ro, rw, rf = (core.stream(seed, n) for n in ("swarm", "ops", "workload", "faults"))
        if gran is None:
            gran = rs.choice(["O", "S", "S", "L"] if tier == "quick" else ["O", "S", "S", "L", "L", "L"])
        else:
            rs.random()
        k = rs.choice([2, 2, 3, 3, 4])
        marathon = gran == "O" and rs.random() < (0.12 if tier == "quick" else 0.25)
        if marathon:
            # many objects, atomic ops in a seeded order, one process image: order-dependent pollution of
            # process-wide tables by one script that changes how a much later, unrelated script parses
            k = rs.choice([8, 12, 20])
        swarm = {"gran": gran, "k": k, "p_corpus": rs.choice([0.3, 0.6, 0.9]) if not marathon else 0.85, "marathon": marathon,
                 "p_line": rs.choice([0.0005, 0.002, 0.01]) if gran == "L" else 0.0,
                 "focus": rs.choice(FOCUS) if gran == "L" else None,
                 "p_focus": rs.choice([0.03, 0.1, 0.3]) if gran == "L" else 0.0,
                 "pct": 0,
                 "cancel_arm": rs.random() < 0.2, "max_len": 2500 if gran == "L" else 6000}
        if gran == "L" and rs.random() < 0.7:
            # PCT arm: few switches, one task suspended at a random line of the focus file while the others run on
            swarm["pct"] = rs.choice([1, 1, 2])
            if swarm["focus"] is None:
                swarm["focus"] = rs.choice(FOCUS[1:])
            swarm["pct_kmax"] = rs.choice([300, 1500, 6000])
        tasks = []
        for t in range(k):
            share = ro.random()
            if t > 0 and share < 0.25:
                # the same text as the neighbour under other settings: anything keyed by the text alone
                # (a statement cache, a shared lexer) shows as one object using the other's settings
                prev = tasks[-1]
                it = {"ddl": prev["ddl"] if ro.random() < 0.75 else workload.same_length_variant(ro, prev["ddl"]),
                      "flags": dict(prev["flags"]), "run": dict(prev["runs"][0]),
                      "src": "gen:" + prev["src"].split(":", 1)[-1] + "+same"}
            elif t > 0 and share < 0.4 and workload.tables_of(tasks[-1]["ddl"]):
                ddl, shape = workload.gen_followup(ro, workload.tables_of(tasks[-1]["ddl"]))
                it = {"ddl": ddl, "flags": dict(tasks[-1]["flags"]), "run": {}, "src": "gen:" + ",".join(shape)}
            else:
                it = None
                if t > 0 and share < 0.6:
                    it = workload.pick_related(ro, tasks[-1]["src"], max_len=swarm["max_len"])
                if it is None:
                    it = workload.pick_item(rw, swarm["p_corpus"], max_len=swarm["max_len"])
            flags = dict(it["flags"])
            # make settings differ between neighbours: interference shows as using another's settings
            if t > 0 and it["src"].endswith("+same"):
                prev = tasks[-1]["flags"]
                c = ro.random()
                if c < 0.65:
                    if prev.get("normalize_names"):
                        flags.pop("normalize_names", None)
                    else:
                        flags["normalize_names"] = True
                if c >= 0.35:
                    if prev.get("silent", True) is False:
                        flags.pop("silent", None)
                    else:
                        flags["silent"] = False
            elif t > 0 and it["src"].startswith("gen:"):
                prev = tasks[-1]["flags"]
                if ro.random() < 0.6:
                    if prev.get("normalize_names"):
                        flags.pop("normalize_names", None)
                    else:
                        flags["normalize_names"] = True
                if ro.random() < 0.4:
                    if prev.get("silent", True) is False:
                        flags.pop("silent", None)
                    else:
                        flags["silent"] = False
            runs = [dict(it["run"]) if ro.random() < 0.5 else workload.pick_run_kwargs(ro, self.modes, it["run"])]
            if ro.random() < 0.4:
                runs.append(workload.pick_run_kwargs(ro, self.modes, it["run"]))
            task = {"tid": t, "ddl": it["ddl"], "flags": flags, "runs": runs, "src": it["src"]}
            if ro.random() < 0.12:
                # this thread goes through the file entry point: parse_from_file(path, parser_settings=flags, **kw)
                task["via_file"] = True
                task["runs"] = runs[:1]
            elif ro.random() < 0.12:
                # the object is constructed by ANOTHER thread (the one that starts the workers) and only run here
                task["ctor_elsewhere"] = True
            if ro.random() < 0.08:
                task["in_handler"] = True
            if not task.get("via_file") and ro.random() < 0.1:
                # dumps into the shared default folder of the process ("schemas" under the working directory); only the
                # returned value is compared
                for kw in task["runs"]:
                    kw["dump"] = True
                    if ro.random() < 0.5:
                        kw["file_path"] = "in/%s.sql" % ro.choice(["t", "t", "u"])
                task["dumps"] = True
            if ro.random() < 0.2:
                # a second object built and run later in the same thread
                c2 = ro.random()
                if c2 < 0.35:
                    f2 = dict(flags)
                    if f2.get("silent", True) is False:
                        f2.pop("silent")
                    else:
                        f2["silent"] = False
                    it2 = {"ddl": it["ddl"] if ro.random() < 0.5 else workload.same_length_variant(ro, it["ddl"]), "flags": f2, "src": "same"}
                elif c2 < 0.6 and workload.tables_of(it["ddl"]):
                    d2, _shape = workload.gen_followup(ro, workload.tables_of(it["ddl"]))
                    it2 = {"ddl": d2, "flags": dict(flags), "src": "followup"}
                else:
                    x = workload.pick_item(rw, swarm["p_corpus"], max_len=swarm["max_len"])
                    it2 = {"ddl": x["ddl"], "flags": dict(x["flags"]), "src": x["src"]}
                it2["runs"] = [workload.pick_run_kwargs(ro, self.modes, {})]
                task["then"] = [it2]
            if swarm["cancel_arm"] and t == 0:
                task["cancel"] = {"run": 0, "stmt": rf.choice([1, 1, 2, 3])}
                if len(runs) == 1:
                    runs.append(dict(runs[0]))
            tasks.append(task)
        if rs.random() < 0.08:
            # every object dumps, half of the time under one and the same base name: the dump stages of different objects
            # meet in one folder (only the returned values are compared; the I/O calls are scheduling points)
            shared = rs.random() < 0.5
            for t in tasks:
                for kw in t["runs"]:
                    kw["dump"] = True
                    if shared:
                        kw["file_path"] = "in/t.sql"
                t["dumps"] = True
            swarm["all_dump"] = True
        for t in tasks:
            if t.get("via_file"):
                # parse_from_file supplies file_path itself; the file entry point is compared without dumping here
                for kw in t["runs"]:
                    for key in ("dump", "file_path", "dump_path"):
                        kw.pop(key, None)
                t.pop("dumps", None)
        arm = rs.random()
        if arm > (0.7 if gran == "L" else 0.85):
            # every object renders in the SAME dialect and is its first user in the process: overlapping first uses of
            # lazily initialised per-dialect state
            m = rs.choice(self.modes)
            for t in tasks:
                for kw in t["runs"]:
                    kw["output_mode"] = m
            swarm["same_mode"] = m
        elif arm < (0.4 if gran == "L" else 0.3):
            # every object renders in ANOTHER dialect: interference through shared formatting state (dialect classes,
            # clean-up helpers) shows as one object's tables shaped by another object's output_mode
            modes = rs.sample([m for m in self.modes if m != "sql"], min(len(tasks), len(self.modes) - 1))
            for t, m in zip(tasks, modes):
                for kw in t["runs"]:
                    kw["output_mode"] = m
            swarm["distinct_modes"] = True
        swarm["clock"] = core.stream(seed, "clock").random() < 0.4
        rd = core.stream(seed, "doomed")
        if rd.random() < (0.12 if not marathon else 0.3):
            # fault at construction: one object is given logging arguments with which its constructor fails when it is the
            # one that configures the root logger (log file in a missing directory, unknown level name).  What becomes of
            # THAT object is not judged; the others must be undisturbed (and must not wait for it for ever).
            cands = [t for t in tasks if not t.get("via_file") and not t.get("ctor_elsewhere")]
            if cands:
                t = rd.choice(cands)
                t["doomed"] = True
                t["flags"] = dict(t["flags"], **rd.choice([{"log_file": "no/such/dir/sdp.log"}, {"log_level": "LOUD"},
                                                            {"log_file": "no/such/dir/sdp.log", "log_level": 10}]))
                if rd.random() < 0.6:
                    # ... and it is the first constructor of the process
                    tasks.remove(t)
                    tasks.insert(0, t)
                swarm["doomed_ctor"] = True
        return {"world": "parsers", "prop": "C15", "seed": seed, "swarm": swarm, "tasks": tasks}

    @staticmethod
    def enum_orders(tasks):
        """All orderings of the atomic ops (construct_i, run_i_1, ...) that respect per-task order."""
        multiset = []
        for i, t in enumerate(tasks):
            multiset += [t.get("tid", i)] * (1 + len(t["runs"]))
        seen = set()
        for perm in itertools.permutations(multiset):
            if perm not in seen:
                seen.add(perm)
                yield list(perm)

    # ------------------------------------------------------------------ execution: C15
    LABELS = {"O": ("between",),
              "S": ("between", "after_lex", "after_yacc", "run_entry", "before_stmt", "run_exit", "io_open", "io_rename", "io_sys"),
              "L": ("between", "after_lex", "after_yacc", "run_entry", "before_stmt", "run_exit", "io_open", "io_rename", "io_sys")}

    def exec_c15(self, trace, keep_events=True):
        swarm = trace["swarm"]
        gran = swarm["gran"]
        log = core.EventLog(keep=keep_events)
        log.add("trace", decided=True, prop="C15", seed=trace.get("seed"), swarm=swarm, tasks=trace["tasks"])
        cwd = os.path.join(self.workroot, "c15-%d" % self.runs_done)
        self.runs_done += 1
        shutil.rmtree(cwd, ignore_errors=True)
        os.makedirs(cwd)
        os.chdir(cwd)
        if "order" in trace:
            chooser = _OrderChooser(trace["order"])
        elif "schedule" in trace:
            chooser = sched.ListChooser(trace["schedule"])
        elif swarm.get("pct"):
            chooser = sched.PctChooser(core.stream(trace["seed"], "schedule"), [t.get("tid", n) for n, t in enumerate(trace["tasks"])],
                                       d=int(swarm["pct"]), kmax=int(swarm.get("pct_kmax", 4000)))
        else:
            chooser = sched.PrngChooser(core.stream(trace["seed"], "schedule"), p_line=swarm.get("p_line", 0.0),
                                        focus=swarm.get("focus"), p_focus=swarm.get("p_focus", 0.0))
        S = sched.Scheduler(chooser, labels=self.LABELS[gran],
                            trace_prefixes=self.trace_prefixes if gran == "L" else None,
                            trace_exclude=("parsetab.py",),
                            trace_contains=swarm.get("focus") if (gran == "L" and swarm.get("pct")) else None)
        st = {"violations": [], "stats": {"tasks": len(trace["tasks"]), "runs": 0, "refs": 0, "cancel_fired": 0,
                                           "exc_outcomes": 0, "ctor_during_other_run": 0, "then_objects_runs": 0},
              "kinds": []}
        outcomes = []     # (tid, run index, outcome)
        running = {"n": 0}
        clk = simenv.SimClock(self.lib_prefix).install()
        rclk = core.stream(int(trace.get("seed") or 0), "clock-jumps") if swarm.get("clock") else None

        def point(label, obj=None):
            task = S.current_task()
            if task is None:
                return
            if rclk is not None and rclk.random() < 0.15:
                # the simulated clock jumps at scheduling points (between statements, around constructors and runs)
                clk.jump(simenv.draw_jump(rclk))
            if label == "before_stmt":
                task.stmt_n = getattr(task, "stmt_n", 0) + 1
                c = getattr(task, "cancel_stmt", None)
                if c is not None and task.stmt_n == c:
                    task.cancel_stmt = None
                    st["stats"]["cancel_fired"] += 1
                    raise sched.SimCancel("stmt")
            elif label == "after_lex" and running["n"] > 0:
                st["stats"]["ctor_during_other_run"] += 1
            S.yield_point(label)

        def make_body(i, spec):
            def body(task):
                # a task owns one parser object, optionally followed by further objects built and run in the
                # same thread ("then"): object index oi, run index j (-1 = the constructor raised)
                p = None
                if spec.get("via_file") and i in via_paths:
                    S.yield_point("between")
                    S.yield_point("run_entry")
                    running["n"] += 1
                    try:
                        r = self.parse_from_file(via_paths[i], parser_settings=dict(spec["flags"]), **spec["runs"][0])
                        out = ["ok", core.canon(r)]
                    except sched.SimCancel:
                        out = ["cancelled"]
                    except Exception as e:  # noqa
                        out = core.outcome_of_exception(e)
                    finally:
                        running["n"] -= 1
                    S.yield_point("run_exit")
                    outcomes.append((i, 0, 0, out))
                    log.add("ret", task=i, obj=0, run=0, outcome=out, via_file=True)
                    return
                for oi, ospec in enumerate([spec] + list(spec.get("then") or [])):
                    if oi:
                        p = None            # the thread drops its previous object before it builds the next one
                        gc.collect()
                        S.yield_point("between")
                    try:
                        if oi == 0 and i in prebuilt:
                            p = prebuilt.pop(i)
                            if isinstance(p, Exception):
                                raise p
                        else:
                            p = self.DDLParser(ospec["ddl"], **ospec["flags"])
                    except Exception as e:  # noqa
                        p = None
                        outcomes.append((i, oi, -1, ["ctor-exc"] + core.outcome_of_exception(e)[1:]))
                    for j, kw in enumerate(ospec["runs"]):
                        S.yield_point("between")
                        if p is None:
                            break
                        c = ospec.get("cancel") if oi == 0 else None
                        task.stmt_n = 0
                        task.cancel_stmt = c["stmt"] if (c and c.get("run") == j) else None
                        S.yield_point("run_entry")
                        running["n"] += 1
                        try:
                            if ospec.get("in_handler"):
                                try:
                                    raise RuntimeError("caller is handling an error")
                                except RuntimeError:
                                    r = p.run(**kw)
                            else:
                                r = p.run(**kw)
                            out = ["ok", core.canon(r)]
                        except sched.SimCancel:
                            out = ["cancelled"]
                            if S.trace_prefixes:
                                sys.settrace(S._global_trace)
                        except Exception as e:  # noqa
                            out = core.outcome_of_exception(e)
                        finally:
                            running["n"] -= 1
                            task.cancel_stmt = None
                        S.yield_point("run_exit")
                        outcomes.append((i, oi, j, out))
                        log.add("ret", task=i, obj=oi, run=j, outcome=out)
            return body

        via_paths = {}
        for n_, spec in enumerate(trace["tasks"]):
            if spec.get("via_file"):
                try:
                    pth = os.path.join(cwd, "in%d.sql" % n_)
                    with open(pth, "w", encoding="utf-8") as fh:
                        fh.write(spec["ddl"])
                    via_paths[spec.get("tid", n_)] = pth
                except UnicodeError:
                    pass            # not writable as a utf-8 text file: this task uses the plain API
        gs0 = gstate.snapshot()
        prebuilt = {}
        for n_, spec in enumerate(trace["tasks"]):
            if spec.get("ctor_elsewhere") and not spec.get("via_file"):
                try:
                    prebuilt[spec.get("tid", n_)] = self.DDLParser(spec["ddl"], **spec["flags"])
                except Exception as e:  # noqa
                    prebuilt[spec.get("tid", n_)] = e
        st["stats"]["ctor_elsewhere"] = len(prebuilt)
        st["stats"]["doomed_ctor_tasks"] = sum(1 for t_ in trace["tasks"] if t_.get("doomed"))
        seams.HOOKS.point = point
        # every os-level call made for library code (stat / mkdir / rename / open below os.path, os.makedirs and pathlib)
        # is a scheduling point: another thread may run between a check and the act that relies on it
        seams.HOOKS.sys = (lambda name, a: point("io_sys")) if gran != "O" else None
        blocked = None
        deadlock = None
        try:
            for i, spec in enumerate(trace["tasks"]):
                S.add_task(spec.get("tid", i), make_body(spec.get("tid", i), spec))
            try:
                S.run()
            except sched.Deadlock as e:
                deadlock = str(e)
            except sched.Blocked as e:
                blocked = str(e)
        finally:
            simenv.uninstall()
            seams.HOOKS.point = lambda *a, **k: None
            seams.HOOKS.sys = None
            os.chdir(self.workroot)
            shutil.rmtree(cwd, ignore_errors=True)
        st["stats"].update(clock_jumps=clk.jumps, clock_reads_by_library=clk.lib_reads, clock_slept_s=int(clk.slept), clock_jumped_s=int(clk.jumped_s))
        trace_out = dict(trace)
        trace_out.pop("order", None)
        trace_out["schedule"] = chooser.recorded
        log.add("schedule", decided=True, decisions=chooser.recorded)
        if blocked:
            return {"status": "inconclusive", "why": blocked, "trace": trace_out,
                    "digest": log.digest(), "ops_digest": log.ops_digest(), "stats": st["stats"]}
        if deadlock:
            # a run() that never returns does not return what the object returns alone
            st["violations"].append({"oracle": "deadlock", "observed": deadlock,
                                     "expected": "every run() returns (alone in a process each of these calls does)"})
        # oracle: every run() == what that object returns as the only parser in a pristine process
        by_tid = dict((spec.get("tid", n), spec) for n, spec in enumerate(trace["tasks"]))
        cancelled_objs = set((i, oi) for (i, oi, j, out) in outcomes if out[0] == "cancelled")
        for (i, oi, j, out) in outcomes:
            spec = ([by_tid[i]] + list(by_tid[i].get("then") or []))[oi]
            if by_tid[i].get("doomed"):
                # constructed with logging arguments that fail when this constructor is the one configuring the root
                # logger: whether it raised depends, today, on who came first - the fault, not an outcome to judge
                if oi == 0 and j == -1:
                    st["stats"]["doomed_ctor_raised"] = st["stats"].get("doomed_ctor_raised", 0) + 1
                if oi == 0:
                    continue
            st["stats"]["runs"] += 1
            if oi:
                st["stats"]["then_objects_runs"] += 1
            if out[0] == "cancelled":
                continue
            if out[0] == "exc":
                st["stats"]["exc_outcomes"] += 1
            if j == -1:
                expected = self.ref(spec["ddl"], spec["flags"], {})
                if expected[0] != "ctor-exc" or expected != out:
                    st["violations"].append({"oracle": "isolation", "task": i, "obj": oi, "run": j,
                                             "expected": core.short(expected, 600), "observed": core.short(out, 600)})
                continue
            if (i, oi) in cancelled_objs:
                # what an object returns after one of its own runs was interrupted is C14's business; the cancel arm
                # only asks that the OTHER objects are undisturbed
                continue
            # the reference is this object's OWN call history (all its runs up to j) as the only parser of a pristine
            # process - so a defect of repeated use of one object (C14) is not reported as interference
            hist = self.ref.history(spec["ddl"], spec["flags"], spec["runs"][:j + 1])
            expected = hist[j] if (hist and hist[0] != "ctor-exc") else hist
            if by_tid[i].get("via_file") and i in via_paths and expected and expected[0] == "ctor-exc":
                expected = ["exc"] + list(expected[1:])      # through parse_from_file a constructor error is just an error
            st["stats"]["refs"] += 1
            if out != expected:
                st["violations"].append({"oracle": "isolation", "task": i, "obj": oi, "run": j,
                                         "expected": core.short(expected, 600), "observed": core.short(out, 600),
                                         "diff": core.first_diff(expected, out)})
        if not st["violations"] and not deadlock:
            # probe (not an oracle): did this history change process-global library state?  Then look for a victim now: corpus
            # scripts on fresh objects, one after another, in this same process; each must parse as it does alone.
            ch = gstate.changed(gs0, gstate.snapshot())
            if ch:
                st["stats"]["global_state_changed"] = 1
                rv = core.stream(int(trace.get("seed") or 0), "victims-c15")
                c = core.corpus()
                idxs = [n for n in range(len(c)) if len(c[n]["ddl"]) <= 6000]
                for idx in rv.sample(idxs, min(len(idxs), 48)):
                    it = c[idx]
                    st["stats"]["victims_run"] = st["stats"].get("victims_run", 0) + 1
                    try:
                        out = ["ok", core.canon(self.DDLParser(it["ddl"], **it["flags"]).run(**it["run"]))]
                    except Exception as e:  # noqa
                        out = core.outcome_of_exception(e)
                    expected = self.ref(it["ddl"], it["flags"], it["run"])
                    if out != expected:
                        new_tid = max([t.get("tid", n) for n, t in enumerate(trace["tasks"])] + [0]) + 1
                        trace_out["tasks"] = list(trace_out["tasks"]) + [{"tid": new_tid, "ddl": it["ddl"], "flags": dict(it["flags"]),
                                                                          "runs": [dict(it["run"])], "src": "corpus:%d+victim" % idx}]
                        st["violations"].append({"oracle": "isolation", "task": new_tid, "obj": 0, "run": 0, "found_by": "victim sweep",
                                                 "changed_global_state": ch[:6],
                                                 "expected": core.short(expected, 600), "observed": core.short(out, 600),
                                                 "diff": core.first_diff(expected, out)})
                        break
        st["stats"].update({"switches": S.switches, "label_points": S.label_points, "line_points": S.line_points, "lock_waits": S.lock_waits,
                            "marathon_runs": 1 if swarm.get("marathon") else 0, "gran_" + gran: 1,
                            "same_text_tasks": sum(1 for t in trace["tasks"] if (t.get("src") or "").endswith("+same")),
                            "via_file_tasks": sum(1 for t in trace["tasks"] if t.get("via_file")),
                            "dumping_tasks": sum(1 for t in trace["tasks"] if t.get("dumps")),
                            "followup_tasks": sum(1 for t in trace["tasks"] if (t.get("src") or "").startswith("gen:followup"))})
        if gran == "L":
            st["stats"]["focus_" + str(swarm.get("focus"))] = 1
            st["stats"]["pct_runs"] = 1 if swarm.get("pct") else 0
        ytrace = hashlib.sha1(repr(S.yield_trace).encode()).hexdigest()[:16] if gran != "L" else \
            hashlib.sha1(repr([(a, b) for a, b, c in chooser.recorded][:40] + [len(chooser.recorded)]).encode()).hexdigest()[:16]
        st["kinds"] = [gran, ytrace]
        return self._result(trace_out, log, st, extra={"nontrivial": S.switches > 0})

    def enum_c15(self, seed, k):
        """Complete enumeration of the orderings of atomic ops for one workload tuple of k tasks
        (k=2: construct+2 runs each = 20 orderings; k=3: construct+run each = 90 orderings)."""
        import shrink
        trace = self.gen_c15(seed, "quick", gran="O")
        tasks = trace["tasks"][:k]
        rw = core.stream(seed, "enum-extra")
        while len(tasks) < k:
            it = workload.pick_item(rw, 0.5)
            tasks.append({"tid": len(tasks), "ddl": it["ddl"], "flags": it["flags"], "runs": [it["run"]], "src": it["src"]})
        for t in tasks:
            t.pop("cancel", None)
            t.pop("then", None)
            t.pop("via_file", None)
            t.pop("ctor_elsewhere", None)
            want = 2 if k == 2 else 1
            while len(t["runs"]) < want:
                t["runs"].append(dict(t["runs"][0]))
            t["runs"] = t["runs"][:want]
        trace["tasks"] = tasks
        trace["swarm"]["k"] = k
        trace["swarm"]["cancel_arm"] = False
        out = {"status": "ok", "k": k, "orderings": 0, "keys": [], "violating": [], "stats": {"switches": 0, "refs": 0}}
        for order in self.enum_orders(tasks):
            t = dict(trace)
            t["order"] = order
            res = self.execute(t, keep_events=False)
            out["orderings"] += 1
            out["keys"].append(core.digest_of(res.get("kinds"))[:16])
            out["stats"]["switches"] += res["stats"].get("switches", 0)
            out["stats"]["refs"] += res["stats"].get("refs", 0)
            if res["status"] == "violation" and not out["violating"]:
                out["violating"].append(shrink.shrink(self, res))
        return out

    # ------------------------------------------------------------------ C14: first use of the process interrupted
    FIRST_USE_FOCI = ["/output/base_data.py", "/output/table_data.py", "/output/core.py", "/output/dialects.py",
                      "/dialects/", "/utils.py", "/ddl_parser.py", "/parser.py"]
    FIRST_USE_LINES = sorted(set(list(range(1, 25)) + list(range(24, 121, 4)) + list(range(120, 401, 16))))

    def sweep_first_use(self, seed, part, nparts, full=False):
        """Fault enumeration: the FIRST run() of a process is interrupted at the n-th line it executes inside one part of
        the library (n = 1..24, then every 4th up to 120, every 16th up to 400, per part; alternately as a cancellation and as a failing allocation), then the same object
        runs again and a fresh object parses another script twice.  Lazily built process-wide structures (per-class
        caches, compiled tables) are built during exactly that first use; one that is published before it is complete
        stays half-built for the rest of the process."""
        import shrink
        c = [it for it in core.corpus() if 150 < len(it["ddl"]) < 2500 and "create table" in it["ddl"].lower()]
        # the output stage (where per-class structures are built lazily) gets the whole range in both tiers; the parsing
        # side only its first 24 lines in the quick tier
        cells = [(f, n) for f in self.FIRST_USE_FOCI for n in self.FIRST_USE_LINES
                 if full or f.startswith("/output/") or n <= 24]
        out = {"status": "ok", "k": "first-use", "orderings": 0, "keys": [], "violating": [],
               "stats": {"first_use_cells": 0, "first_use_fired": 0}}
        for idx, (focus, n) in enumerate(cells):
            if idx % nparts != part:
                continue
            r = core.stream(seed, "first-use:%d" % idx)
            it, it2 = r.choice(c), r.choice(c)
            mode = r.choice(["sql"] * len(self.modes) + list(self.modes))
            kw = dict(it["run"], output_mode=mode)
            kw2 = dict(it2["run"], output_mode=mode)
            cancel = {"line": n, "focus": focus}
            if idx % 2:
                cancel["as"] = "MemoryError"
            ops = [{"op": "new", "ddl": it["ddl"], "flags": dict(it["flags"]), "src": "corpus"},
                   {"op": "run", "kw": kw, "cancel": cancel},
                   {"op": "run", "kw": dict(kw)},
                   {"op": "new", "ddl": it2["ddl"], "flags": dict(it2["flags"]), "src": "corpus"},
                   {"op": "run", "kw": kw2},
                   {"op": "run", "kw": dict(kw2, json_dump=True)}]
            trace = {"world": "parsers", "prop": "C14", "seed": seed, "swarm": {"sweep": ["first_use", focus, n]}, "ops": ops}
            res = self.execute(trace, keep_events=False)
            out["orderings"] += 1
            out["stats"]["first_use_cells"] += 1
            out["stats"]["first_use_fired"] += 1 if res["stats"].get("cancel_line_fired") else 0
            out["keys"].append("first-use:%s:%d" % (focus, n))
            if res["status"] == "violation" and len(out["violating"]) < 1:
                out["violating"].append(shrink.shrink(self, res))
        return out

    # ------------------------------------------------------------------ shared
    def _result(self, trace, log, st, extra=None):
        srcs = [o.get("src") for o in trace.get("ops", []) if o.get("op") == "new"] + \
               [t.get("src") for t in trace.get("tasks", [])]
        res = {"status": "violation" if st["violations"] else "ok", "violations": st["violations"],
               "dkey": core.digest_of([st["kinds"], srcs if trace.get("prop") == "C14" else []])[:16],
               "digest": log.digest(), "ops_digest": log.ops_digest(), "stats": st["stats"],
               "kinds": st["kinds"], "trace": trace, "nevents": log.seq,
               "ref_hashseed": self.ref_x.hashseed if self.ref_x is not None else None,
               "ref_optimize": bool(self.ref_x.optimize) if self.ref_x is not None else None}
        if log.events is not None:
            res["events"] = log.events
        if extra:
            res.update(extra)
        return res

    def execute_here(self, trace, keep_events=False):
        if trace["prop"] == "C14":
            return self.exec_c14(trace, keep_events)
        return self.exec_c15(trace, keep_events)

    def execute(self, trace, keep_events=False):
        """Every run starts from the same process state: executed in a forked child (isolate.py)."""
        import isolate
        res = isolate.run_isolated(lambda: self.execute_here(trace, keep_events), ref=_Refs(self.ref, self.ref_x))
        return res

    def generate(self, prop, seed, tier, **kw):
        return self.gen_c14(seed, tier) if prop == "C14" else self.gen_c15(seed, tier, **kw)


class _OrderChooser:
    """Explicit ordering of atomic ops (granularity O enumeration): at every decision point the
    next task id is popped from `order`.  Records decisions in the common addressed format."""

    def __init__(self, order):
        self.order = list(order)
        self.recorded = []

    def _next(self, cur, dp, runnable):
        while self.order:
            n = self.order.pop(0)
            if n in runnable:
                break
        else:
            n = runnable[0]
        if cur is None or n != cur:
            self.recorded.append([cur, dp, n])
        return n

    def at_label(self, cur, dp, runnable):
        return self._next(cur, dp, runnable)

    def at_line(self, cur, dp, others, filename=None):
        return cur


def _scribble(x, depth=0):
    """Mutate every mutable container reachable from a returned result (in place)."""
    if depth > 12:
        return
    if isinstance(x, dict):
        for v in list(x.values()):
            _scribble(v, depth + 1)
        x["__caller_scribble__"] = depth
        for k in list(x)[:2]:
            if k != "__caller_scribble__" and not isinstance(x[k], (dict, list)):
                x[k] = "__overwritten_by_caller__"
    elif isinstance(x, list):
        for v in x:
            _scribble(v, depth + 1)
        x.append("__caller_scribble__")


class _Refs:
    """Lets isolate.run_isolated carry the memo deltas of both references back to the worker."""

    def __init__(self, *refs):
        self.refs = [r for r in refs if r is not None]

    @property
    def new_entries(self):
        return [((n, k), v) for n, r in enumerate(self.refs) for (k, v) in r.new_entries]

    @new_entries.setter
    def new_entries(self, value):
        for r in self.refs:
            r.new_entries = []

    class _Memo:
        def __init__(self, refs):
            self.refs = refs

        def setdefault(self, k, v):
            n, key = k
            self.refs[n].memo.setdefault(key, v)

    @property
    def memo(self):
        return _Refs._Memo(self.refs)
