"""Trace minimisation.  Greedy delta-debugging passes over the explicit trace while the same
violation class (property, oracle kind) persists: drop ops / tasks, drop faults, drop schedule
decisions (i.e. prefer "keep running the same task"), coarsen granularity, reset run kwargs,
drop statements from scripts.  Bounded by an execution budget; the result is re-executed with
events kept and is what gets written to the replay file."""
import copy
import time

import workload

MAX_EXEC = 400
MAX_WALL = 120.0


class _Budget:
    def __init__(self):
        self.n = 0
        self.t0 = time.monotonic()

    def ok(self):
        return self.n < MAX_EXEC and time.monotonic() - self.t0 < MAX_WALL


def _ddmin_list(items, test, budget):
    """Remove chunks of `items` while test(candidate) holds.  Returns the reduced list."""
    n = 2
    items = list(items)
    while len(items) >= 1 and budget.ok():
        chunk = max(1, len(items) // n)
        removed = False
        i = 0
        while i < len(items) and budget.ok():
            cand = items[:i] + items[i + chunk:]
            if len(cand) < len(items) and test(cand):
                items = cand
                removed = True
            else:
                i += chunk
        if not removed:
            if chunk == 1:
                break
            n = min(len(items), n * 2)
    return items


def shrink(world, res):
    target = res["violations"][0]["oracle"]
    budget = _Budget()
    best = {"trace": res["trace"], "res": res}

    def attempt(trace):
        if not budget.ok():
            return False
        budget.n += 1
        try:
            r = world.execute(trace, keep_events=False)
        except BaseException:  # noqa   a malformed candidate is simply not a reduction
            return False
        if r.get("status") == "violation" and any(v["oracle"] == target for v in r["violations"]):
            best["trace"], best["res"] = r["trace"], r
            return True
        return False

    t0 = best["trace"]
    size0 = _size(t0)
    if t0["prop"] == "C14":
        _shrink_c14(best, attempt, budget)
    elif t0["prop"] == "C15":
        _shrink_c15(best, attempt, budget)
    elif "incarnations" in t0:
        _shrink_c20(best, attempt, budget)
    else:
        _shrink_ops(best, attempt, budget)
    final = world.execute(best["trace"], keep_events=True)
    if not (final.get("status") == "violation" and any(v["oracle"] == target for v in final["violations"])):
        final = best["res"]       # should not happen (determinism); keep the last confirmed one
        final["shrink_unstable"] = True
    final["shrunk"] = {"from": size0, "to": _size(final["trace"]), "executions": budget.n}
    return final


def _size(t):
    if "ops" in t:
        return {"ops": len(t["ops"]), "chars": sum(len(o.get("ddl", "") or o.get("text", "") or "") for o in t["ops"])}
    if "tasks" in t:
        return {"tasks": len(t["tasks"]), "decisions": len(t.get("schedule", [])),
                "chars": sum(len(x["ddl"]) for x in t["tasks"])}
    if "incarnations" in t:
        return {"incarnations": len(t["incarnations"])}
    return {}


def _shrink_ddl(get, put, attempt, budget):
    chunks = workload.split_statements(get())
    if len(chunks) <= 1:
        return

    def test(c):
        return attempt(put("\n".join(c)))
    _ddmin_list(chunks, test, budget)


def _shrink_ops(best, attempt, budget):
    def with_ops(ops):
        t = copy.deepcopy(best["trace"])
        t["ops"] = ops
        return t
    vi = best["res"]["violations"][0].get("op_index")
    if vi is not None and vi + 1 < len(best["trace"]["ops"]):
        attempt(with_ops(best["trace"]["ops"][:vi + 1]))
    _ddmin_list(best["trace"]["ops"], lambda ops: attempt(with_ops(ops)), budget)
    return with_ops


def _shrink_c14(best, attempt, budget):
    with_ops = _shrink_ops(best, attempt, budget)
    # simplify individual ops
    for i in range(len(best["trace"]["ops"])):
        for key in ("cancel", "dump_fault", "dump", "nodump_args", "settings_extra", "scribble", "in_handler"):
            ops = copy.deepcopy(best["trace"]["ops"])
            if i < len(ops) and key in ops[i]:
                del ops[i][key]
                attempt(with_ops(ops))
        ops = copy.deepcopy(best["trace"]["ops"])
        if i < len(ops) and ops[i].get("kw"):
            for k in list(ops[i]["kw"]):
                ops2 = copy.deepcopy(best["trace"]["ops"])
                if i < len(ops2) and k in ops2[i].get("kw", {}):
                    del ops2[i]["kw"][k]
                    attempt(with_ops(ops2))
        ops = copy.deepcopy(best["trace"]["ops"])
        if i < len(ops) and ops[i].get("flags"):
            ops[i]["flags"] = {}
            attempt(with_ops(ops))
    for i in range(len(best["trace"]["ops"])):
        if best["trace"]["ops"][i]["op"] == "new":
            def put(text, i=i):
                ops = copy.deepcopy(best["trace"]["ops"])
                ops[i]["ddl"] = text
                return with_ops(ops)
            _shrink_ddl(lambda i=i: best["trace"]["ops"][i]["ddl"], put, attempt, budget)


def _shrink_c15(best, attempt, budget):
    def variant(**kw):
        t = copy.deepcopy(best["trace"])
        t.update(kw)
        return t
    # coarser granularity first
    g = best["trace"]["swarm"]["gran"]
    for coarser in {"L": ["O", "S"], "S": ["O"], "O": []}[g]:
        t = copy.deepcopy(best["trace"])
        t["swarm"]["gran"] = coarser
        t["schedule"] = [d for d in t.get("schedule", [])]
        if attempt(t):
            break
    # drop tasks
    _ddmin_list(best["trace"]["tasks"], lambda ts: len(ts) >= 1 and attempt(variant(tasks=ts)), budget)
    # drop schedule decisions
    _ddmin_list(best["trace"].get("schedule", []), lambda sc: attempt(variant(schedule=sc)), budget)
    # the plain constructor + run() instead of the file entry point
    for i in range(len(best["trace"]["tasks"])):
        ts = copy.deepcopy(best["trace"]["tasks"])
        if ts[i].get("via_file"):
            ts[i].pop("via_file")
            attempt(variant(tasks=ts))
        ts = copy.deepcopy(best["trace"]["tasks"])
        if ts[i].get("ctor_elsewhere"):
            ts[i].pop("ctor_elsewhere")
            attempt(variant(tasks=ts))
    # drop second objects of a thread
    for i in range(len(best["trace"]["tasks"])):
        ts = copy.deepcopy(best["trace"]["tasks"])
        if ts[i].get("then"):
            ts[i].pop("then")
            attempt(variant(tasks=ts))
    # drop second runs, cancel, reset kwargs / flags
    for i in range(len(best["trace"]["tasks"])):
        ts = copy.deepcopy(best["trace"]["tasks"])
        if len(ts[i]["runs"]) > 1:
            ts[i]["runs"] = ts[i]["runs"][:1]
            ts[i].pop("cancel", None)
            attempt(variant(tasks=ts))
        ts = copy.deepcopy(best["trace"]["tasks"])
        if ts[i].get("cancel"):
            ts[i].pop("cancel")
            attempt(variant(tasks=ts))
        ts = copy.deepcopy(best["trace"]["tasks"])
        if any(ts[i]["runs"]):
            ts[i]["runs"] = [{} for _ in ts[i]["runs"]]
            attempt(variant(tasks=ts))
        ts = copy.deepcopy(best["trace"]["tasks"])
        if ts[i]["flags"]:
            ts[i]["flags"] = {}
            attempt(variant(tasks=ts))
    for i in range(len(best["trace"]["tasks"])):
        def put(text, i=i):
            ts = copy.deepcopy(best["trace"]["tasks"])
            ts[i]["ddl"] = text
            return variant(tasks=ts)
        _shrink_ddl(lambda i=i: best["trace"]["tasks"][i]["ddl"], put, attempt, budget)
    _ddmin_list(best["trace"].get("schedule", []), lambda sc: attempt(variant(schedule=sc)), budget)


def _shrink_c20(best, attempt, budget):
    def variant(incs):
        t = copy.deepcopy(best["trace"])
        t["incarnations"] = incs
        return t
    vi = best["res"]["violations"][0].get("incarnation")
    if vi is not None and vi + 1 < len(best["trace"]["incarnations"]):
        attempt(variant(best["trace"]["incarnations"][:vi + 1]))
    _ddmin_list(best["trace"]["incarnations"], lambda incs: len(incs) >= 1 and attempt(variant(incs)), budget)
    for i in range(len(best["trace"]["incarnations"])):
        incs = copy.deepcopy(best["trace"]["incarnations"])
        if incs[i].get("write_fault"):
            incs[i]["write_fault"] = False
            attempt(variant(incs))
        incs = copy.deepcopy(best["trace"]["incarnations"])
        if incs[i].get("pyflags"):
            incs[i]["pyflags"] = []
            attempt(variant(incs))
        incs = copy.deepcopy(best["trace"]["incarnations"])
        if incs[i].get("hashseed"):
            incs[i]["hashseed"] = 0
            attempt(variant(incs))
        v = best["res"]["violations"][0]
        if v.get("item") is not None and v.get("incarnation") == i:
            incs = copy.deepcopy(best["trace"]["incarnations"])
            incs[i]["items"] = [v["item"]]
            attempt(variant(incs))
        else:
            incs = copy.deepcopy(best["trace"]["incarnations"])
            if len(incs[i]["items"]) > 1:
                incs[i]["items"] = incs[i]["items"][:1]
                attempt(variant(incs))
