#!/venv/bin/python
"""Determinism self-test of the simulator (harness-level; not a property check).

  selftest.py --quick   small sample (used as MANIFEST.setup_cmd): each seed is run twice in one worker
                        and once more in a second fresh interpreter; event-log digests must be identical.
  selftest.py           larger sample: additionally other hash seeds (decided part must be identical;
                        observed part too for C14/C15-S), worker counts 1 and 16 (position in the worker
                        must not matter), and line-level (L) schedules twice under one hash seed.
Exit 0 = deterministic on the sample; exit 2 otherwise."""
import os
import sys
import time

HERE = os.path.dirname(os.path.abspath(__file__))
sys.path.insert(0, HERE)
import core      # noqa: E402
import runner    # noqa: E402


def collect(scratch, world, groups, jobs_for):
    pool = runner.Pool(scratch, world, groups)
    out = {}
    errs = []

    def on_result(g, job, res):
        if res is None or res.get("status") in ("error",):
            errs.append((g, job.get("id"), (res or {}).get("error", "worker died")[-800:]))
            return
        out.setdefault(g, {}).setdefault(job["id"], []).append((res.get("ops_digest"), res.get("digest"), res.get("status")))
    try:
        pool.run({g: jobs_for(g) for g in groups}, on_result)
    finally:
        pool.close()
    return out, errs


def main():
    quick = "--quick" in sys.argv
    t0 = time.monotonic()
    n = 10 if quick else 60
    bad = []
    plans = [("parsers", "C14", {}), ("parsers", "C15", {"gran": "S"}), ("parsers", "C15", {"gran": "O"})]
    if not quick:
        plans.append(("parsers", "C15", {"gran": "L"}))
    for w, p, g in (("files", "C19", {}), ("tablecache", "C20", {})):
        if os.path.exists(os.path.join(HERE, "world_%s.py" % w)):
            plans.append((w, p, g))
    for world, prop, gen in plans:
        if quick:
            groups = {"a": [0], "b": [0]}
        elif gen.get("gran") == "L":
            groups = {"a": [0], "b": [0], "c": [0] * 6}
        else:
            groups = {"a": [0], "b": [0], "c": [0] * 6, "h1": [1], "h2": [4242]}
        scratch = core.Scratch(sum(len(v) for v in groups.values()))
        try:
            def jobs_for(g):
                reps = 2 if g == "a" else 1
                for s in range(n):
                    for _ in range(reps):
                        yield {"cmd": "seed", "prop": prop, "seed": 7000 + s, "tier": "quick", "gen": gen,
                               "id": s, "shrink": False, "timeout": 600}
            out, errs = collect(scratch, world, groups, jobs_for)
        finally:
            scratch.close()
        for e in errs:
            bad.append("%s %s %s: %s" % (prop, gen, e[0], e[2]))
        for s in range(n):
            allr = [(g, r) for g in out for r in out[g].get(s, [])]
            if len(allr) < len(groups):
                bad.append("%s %s seed %d: missing results" % (prop, gen, s))
                continue
            same_hs = [r for g, r in allr if not g.startswith("h")]
            if len(set(same_hs)) != 1:
                bad.append("%s %s seed %d: digests differ between runs under one hash seed: %s" % (prop, gen, s, same_hs))
            if len(set(r[0] for g, r in allr)) != 1:
                bad.append("%s %s seed %d: generated history depends on the hash seed" % (prop, gen, s))
            elif len(set(r[1] for g, r in allr)) != 1:
                bad.append("%s %s seed %d: observed outcomes depend on the hash seed (library or harness)" % (prop, gen, s))
        print("selftest %s %s: %d seeds x %d interpreters ok=%s" % (prop, gen, n, sum(len(v) for v in groups.values()),
                                                                not any(b.startswith("%s %s" % (prop, gen)) for b in bad)), flush=True)
    for b in bad[:20]:
        print("SELFTEST-FAIL: " + b)
    print("selftest done in %.1fs: %s" % (time.monotonic() - t0, "FAIL" if bad else "deterministic on the sample"))
    return 2 if bad else 0


if __name__ == "__main__":
    sys.exit(main())
