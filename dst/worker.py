#!/venv/bin/python
"""Worker process: owns one private copy of the working tree's package, one pristine-fork
reference zygote and one world.  Reads one JSON job per line on stdin, answers with one JSON
line on a private copy of stdout (fd 1 itself is pointed at /dev/null: the CLI prints)."""
import faulthandler
import json
import os
import sys
import traceback

HERE = os.path.dirname(os.path.abspath(__file__))
sys.path.insert(0, HERE)


def main():
    tree, world_name, workroot = sys.argv[1], sys.argv[2], sys.argv[3]
    out = os.fdopen(os.dup(1), "w")
    devnull = os.open(os.devnull, os.O_WRONLY)
    os.dup2(devnull, 1)
    sys.stdout = open(os.devnull, "w")
    os.makedirs(workroot, exist_ok=True)
    fh_log = open(os.path.join(workroot, "faulthandler.log"), "w")
    faulthandler.enable(fh_log)
    import core
    import seams
    import reference
    import isolate
    isolate.FH_LOG = fh_log
    seams.silence(disable_logging=(world_name == "tablecache"))
    sys.path.insert(0, tree)
    os.chdir(workroot)
    trash = os.path.join(workroot, "ref-trash")
    os.makedirs(trash, exist_ok=True)
    world = None
    try:
        if world_name == "parsers":
            ref = reference.Reference(tree, cwd=trash)
            own = os.environ.get("PYTHONHASHSEED", "0")
            alt = os.environ.get("VERIF_REF_HASHSEED")
            if alt is None:
                cands = [s for s in core.ALT_HASHSEEDS if str(s) != own]
                alt = cands[int(os.environ.get("VERIF_WORKER_INDEX", "0")) % len(cands)]
            opt = os.environ.get("VERIF_REF_OPTIMIZE")
            if opt is None:
                opt = "1" if int(os.environ.get("VERIF_WORKER_INDEX", "0")) % 2 == 1 else "0"
            # the "other process": another hash seed, a plain C locale, and - in every second worker - python -O
            ref_x = reference.Reference(tree, cwd=trash, hashseed=alt, optimize=(opt == "1"))
            import world_parsers
            world = world_parsers.ParsersWorld(tree, workroot, ref, ref_x)
        elif world_name == "files":
            ref = reference.Reference(tree, cwd=trash)
            import world_files
            world = world_files.FilesWorld(tree, workroot, ref)
        elif world_name == "tablecache":
            import world_tablecache
            world = world_tablecache.TableCacheWorld(tree, workroot)
        else:
            raise RuntimeError("unknown world " + world_name)
        out.write(json.dumps({"ready": True, "hashseed": os.environ.get("PYTHONHASHSEED"),
                              "ref_hashseed": getattr(getattr(world, "ref_x", None), "hashseed", None),
                              "ref_optimize": getattr(getattr(world, "ref_x", None), "optimize", None)}) + "\n")
        out.flush()
    except BaseException:  # noqa
        out.write(json.dumps({"ready": False, "error": traceback.format_exc()}) + "\n")
        out.flush()
        return 2
    import shrink
    for line in sys.stdin:
        line = line.strip()
        if not line:
            continue
        job = json.loads(line)
        faulthandler.dump_traceback_later(float(job.get("timeout", 300)), exit=True, file=fh_log)
        try:
            cmd = job["cmd"]
            if cmd == "quit":
                break
            if cmd == "seed":
                trace = world.generate(job["prop"], job["seed"], job.get("tier", "quick"), **job.get("gen", {}))
                res = world.execute(trace, keep_events=False)
                if res["status"] == "violation" and job.get("shrink", True):
                    d0 = (res.get("digest"), res.get("ops_digest"))
                    res = shrink.shrink(world, res)
                    res["digest"], res["ops_digest"] = d0
                if res["status"] == "ok" and not job.get("want_trace"):
                    res.pop("trace", None)
            elif cmd == "exec":
                res = world.execute(job["trace"], keep_events=job.get("events", False))
                if res["status"] == "violation" and job.get("shrink", False):
                    res = shrink.shrink(world, res)
            elif cmd == "custom":
                res = getattr(world, job["method"])(**job.get("args", {}))
            else:
                res = {"status": "error", "error": "unknown cmd"}
        except BaseException:  # noqa
            res = {"status": "error", "error": traceback.format_exc()}
        finally:
            faulthandler.cancel_dump_traceback_later()
        res["job"] = job.get("id")
        out.write(json.dumps(res) + "\n")
        out.flush()
    try:
        if world is not None and hasattr(world, "close"):
            world.close()
    except BaseException:  # noqa
        pass
    return 0


if __name__ == "__main__":
    sys.exit(main())
