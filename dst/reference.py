"""Pristine-fork reference evaluator.

REF(ddl, ctor_kwargs, run_kwargs) = what the library returns when one parser object is
constructed and run once in a process in which *no parser has ever existed*.  A zygote is
forked from the worker before the worker creates any parser or thread; it imports the package
(and the table data module) and then forks one grandchild per request.  The grandchild builds
one DDLParser, calls run() once, writes the canonical outcome to a pipe and _exit()s.

The reference is the same tree as the system under test: a change of what some DDL *means*
changes both sides alike."""
import os
import pickle
import struct
import sys

import core


# the "other process" of C14 also differs in its locale: plain C, no UTF-8 mode, no locale coercion - the preferred
# encoding there is ASCII, so anything that silently relies on the platform default encoding shows
OTHER_ENV = {"LC_ALL": "C", "LANG": "C", "PYTHONUTF8": "0", "PYTHONCOERCECLOCALE": "0"}


def _write_msg(fd, obj):
    data = pickle.dumps(obj, protocol=4)
    data = struct.pack("<I", len(data)) + data
    while data:
        n = os.write(fd, data)
        data = data[n:]


def _read_exact(fd, n):
    buf = b""
    while len(buf) < n:
        chunk = os.read(fd, n - len(buf))
        if not chunk:
            raise EOFError
        buf += chunk
    return buf


def _read_msg(fd):
    (n,) = struct.unpack("<I", _read_exact(fd, 4))
    return pickle.loads(_read_exact(fd, n))


def evaluate_here(req):
    """Executed in the grandchild (and nowhere else): one construction, one run."""
    from simple_ddl_parser import DDLParser
    if "from_file" in req:
        # the file entry point, evaluated in this (other-environment) pristine process
        from simple_ddl_parser import parse_from_file
        try:
            return ["ok", core.canon(parse_from_file(req["from_file"], parser_settings=dict(req.get("flags", {})), **req.get("run", {})))]
        except BaseException as e:  # noqa
            return core.outcome_of_exception(e)
    try:
        p = DDLParser(req["ddl"], **req.get("flags", {}))
    except BaseException as e:  # noqa
        return ["ctor-exc"] + core.outcome_of_exception(e)[1:]
    if "runs" in req:
        # the object's own call history, alone in the process: outcome of every run() in order
        outs = []
        for kw in req["runs"]:
            try:
                outs.append(["ok", core.canon(p.run(**kw))])
            except BaseException as e:  # noqa
                outs.append(core.outcome_of_exception(e))
        return ["history", outs]
    try:
        r = p.run(**req.get("run", {}))
    except BaseException as e:  # noqa
        return core.outcome_of_exception(e)
    return ["ok", core.canon(r)]


SENSE = None       # simenv.EnvSense of the exec'ed "other process" zygote
MISSING_IMPORTS = []   # modules library code tried to import and did not find (optional accelerators and the like)


def _zygote_main(tree, rfd, wfd, other=False):
    global SENSE
    sys.path.insert(0, tree)
    if other:
        # the "other process" also lives at another time (years ahead, every read of a clock a little later) and under
        # an application that configured logging itself; reads of os.environ by library code are recorded
        import logging
        import simenv
        prefix = os.path.join(os.path.abspath(tree), "simple_ddl_parser") + os.sep
        simenv.install_datetime()
        simenv.SimClock(prefix, wall=2_211_753_600.0 + 86400 * 211 + 7 * 3600, mono=9_000_000.0).install()
        SENSE = simenv.EnvSense(prefix).install()
        import builtins
        _real_import = builtins.__import__

        def _import(name, globals=None, locals=None, fromlist=(), level=0):
            try:
                return _real_import(name, globals, locals, fromlist, level)
            except ImportError:
                if globals and str(globals.get("__file__", "")).startswith(prefix) and name not in MISSING_IMPORTS:
                    MISSING_IMPORTS.append(name)
                raise
        builtins.__import__ = _import
        root = logging.getLogger()
        root.addHandler(logging.NullHandler())
        root.setLevel(logging.DEBUG)
        # ... and on a platform whose text-file line separator is CR LF (what Python code sees of it: os.linesep)
        os.linesep = "\r\n"
    import simple_ddl_parser  # noqa: F401   (logging is left alone: fds 0-2 are /dev/null; the constructor's root config is real)
    try:
        import simple_ddl_parser.parsetab  # noqa: F401  (data only; builds no lexer / parser)
    except BaseException:  # noqa   a missing / broken cache is the library's business
        sys.modules.pop("simple_ddl_parser.parsetab", None)
    assert os.path.abspath(simple_ddl_parser.__file__).startswith(os.path.abspath(tree))
    _write_msg(wfd, ["ready", SENSE.take(), list(MISSING_IMPORTS)] if SENSE is not None else "ready")
    while True:
        try:
            req = _read_msg(rfd)
        except EOFError:
            os._exit(0)
        r, w = os.pipe()
        pid = os.fork()
        if pid == 0:
            try:
                os.close(r)
                if req.get("cwd"):
                    os.chdir(req["cwd"])
                for k, v in (req.get("env") or {}).items():
                    if v is None:
                        os.environ.pop(k, None)
                    else:
                        os.environ[k] = v
                out = evaluate_here(req)
                if SENSE is not None:
                    keys = SENSE.take()
                    if keys:
                        out = ["sensed", [[k, os.environ.get(k)] for k in keys if k not in (req.get("env") or {})], out]
                _write_msg(w, out)
            except BaseException as e:  # noqa
                try:
                    _write_msg(w, ["harness-exc", repr(e)])
                except BaseException:  # noqa
                    pass
            finally:
                os._exit(0)
        os.close(w)
        try:
            out = _read_msg(r)
        except EOFError:
            out = ["crash"]
        os.close(r)
        _, status = os.waitpid(pid, 0)
        if out == ["crash"]:
            out = ["crash", status]
        _write_msg(wfd, out)


class Reference:
    """Client side, lives in the worker.  Must be created before the worker builds any parser
    or starts any thread."""

    def __init__(self, tree, cwd=None, hashseed=None, optimize=False, extra_env=None):
        self.tree = tree
        self.cwd = cwd
        self.memo = {}
        self.new_entries = []
        self.calls = 0
        self.hits = 0
        self.hashseed = hashseed
        self.optimize = False
        self.proc = None
        self.env_keys_sensed = {}      # environment variable -> number of requests during which library code read it
        self.env_flips = 0             # re-evaluations under a flipped variable
        self.env_dependent = []        # [key, value it was flipped to] of requests whose outcome followed the variable
        self.import_env = dict(extra_env or {})
        self.optional_imports_missing = []
        if hashseed is not None:
            # a zygote in a freshly exec'ed interpreter under ANOTHER hash seed: "in another process or
            # under a different hash seed yields an equal result"
            import subprocess
            self.optimize = bool(optimize)
            self.proc = subprocess.Popen([sys.executable] + (["-O"] if optimize else []) + [os.path.abspath(__file__), "--zygote", tree],
                                         stdin=subprocess.PIPE, stdout=subprocess.PIPE, stderr=subprocess.DEVNULL,
                                         env=core.worker_env(hashseed, dict(OTHER_ENV, **(extra_env or {}))))
            self.pid, self.wfd, self.rfd = self.proc.pid, self.proc.stdin.fileno(), self.proc.stdout.fileno()
            msg = _read_msg(self.rfd)
            if not (isinstance(msg, list) and msg and msg[0] == "ready"):
                raise RuntimeError("zygote failed to start: %r" % (msg,))
            self.optional_imports_missing = list(msg[2]) if len(msg) > 2 else []
            if msg[1] and extra_env is None:
                # library code read environment variables while it was imported: this "other process" is restarted with
                # each of them flipped, so that every comparison with it is also a comparison across that variable
                import simenv
                for k in msg[1]:
                    self.env_keys_sensed[k] = self.env_keys_sensed.get(k, 0) + 1
                flips = {k: simenv.flipped(os.environ.get(k)) for k in msg[1]}
                self.close()
                self.__init__(tree, cwd=cwd, hashseed=hashseed, optimize=optimize, extra_env=flips)
                self.env_keys_sensed = {k: 1 for k in flips}
            return
        p2c_r, p2c_w = os.pipe()
        c2p_r, c2p_w = os.pipe()
        pid = os.fork()
        if pid == 0:
            try:
                os.close(p2c_w)
                os.close(c2p_r)
                devnull = os.open(os.devnull, os.O_RDWR)
                for fd in (0, 1, 2):
                    os.dup2(devnull, fd)
                _zygote_main(tree, p2c_r, c2p_w)
            finally:
                os._exit(1)
        os.close(p2c_r)
        os.close(c2p_w)
        self.pid, self.wfd, self.rfd = pid, p2c_w, c2p_r
        msg = _read_msg(self.rfd)
        if msg != "ready":
            raise RuntimeError("zygote failed to start: %r" % (msg,))

    def _recv(self, req):
        """Read the answer to `req`.  If library code read environment variables while answering, the request is evaluated
        again with each of them flipped; an outcome that follows the variable replaces the answer (the caller compares it
        with the same-environment reference and reports the difference)."""
        out = _read_msg(self.rfd)
        if out and out[0] == "sensed":
            import simenv
            sensed, out = out[1], out[2]
            for k, cur in sensed:
                self.env_keys_sensed[k] = self.env_keys_sensed.get(k, 0) + 1
            for k, cur in sensed:
                if k in self.import_env:
                    continue
                self.env_flips += 1
                _write_msg(self.wfd, dict(req, env={k: simenv.flipped(cur)}))
                alt = _read_msg(self.rfd)
                if alt and alt[0] == "sensed":
                    alt = alt[2]
                if alt != out:
                    self.env_dependent.append([k, simenv.flipped(cur)])
                    return alt
        return out

    def __call__(self, ddl, flags=None, run=None):
        req = {"ddl": ddl, "flags": flags or {}, "run": run or {}}
        key = core.cjson(req)
        self.calls += 1
        if key in self.memo:
            self.hits += 1
            return self.memo[key]
        if self.cwd:
            req["cwd"] = self.cwd
        _write_msg(self.wfd, req)
        out = self._recv(req)
        if out and out[0] in ("crash", "harness-exc"):
            raise RuntimeError("reference evaluation failed: %r" % (out,))
        self.memo[key] = out
        self.new_entries.append((key, out))
        return out

    def begin(self, ddl, flags=None, run=None):
        """Start an evaluation without waiting for it (two references can then work at the same time).  Returns a token for
        finish()."""
        req = {"ddl": ddl, "flags": flags or {}, "run": run or {}}
        key = core.cjson(req)
        self.calls += 1
        if key in self.memo:
            self.hits += 1
            return ("hit", key)
        if self.cwd:
            req["cwd"] = self.cwd
        _write_msg(self.wfd, req)
        return ("sent", key, req)

    def finish(self, token):
        kind, key = token[0], token[1]
        if kind == "hit":
            return self.memo[key]
        out = self._recv(token[2])
        if out and out[0] in ("crash", "harness-exc"):
            raise RuntimeError("reference evaluation failed: %r" % (out,))
        self.memo[key] = out
        self.new_entries.append((key, out))
        return out

    def from_file(self, path, flags, run):
        """parse_from_file(path, parser_settings=flags, **run) in a pristine process of this reference's environment.
        Not memoised (the same path holds other content in other runs)."""
        req = {"from_file": path, "flags": flags or {}, "run": run or {}}
        if self.cwd:
            req["cwd"] = self.cwd
        self.calls += 1
        _write_msg(self.wfd, req)
        out = self._recv(req)
        if out and out[0] in ("crash", "harness-exc"):
            raise RuntimeError("reference evaluation failed: %r" % (out,))
        return out

    def history(self, ddl, flags, runs):
        """Outcomes of run(**runs[0]), run(**runs[1]), ... on ONE object that is the only parser of a pristine process.
        Returns a list of outcomes, or ["ctor-exc", ...] if the constructor raised."""
        req = {"ddl": ddl, "flags": flags or {}, "runs": list(runs)}
        key = core.cjson(req)
        self.calls += 1
        if key in self.memo:
            self.hits += 1
            return self.memo[key]
        if self.cwd:
            req["cwd"] = self.cwd
        _write_msg(self.wfd, req)
        out = self._recv(req)
        if out and out[0] in ("crash", "harness-exc"):
            raise RuntimeError("reference evaluation failed: %r" % (out,))
        out = out[1] if out and out[0] == "history" else out
        self.memo[key] = out
        self.new_entries.append((key, out))
        return out

    def close(self):
        if self.proc is not None:
            try:
                self.proc.stdin.close()
                self.proc.wait(timeout=10)
            except Exception:  # noqa
                self.proc.kill()
            return
        try:
            os.close(self.wfd)
            os.close(self.rfd)
            os.waitpid(self.pid, 0)
        except OSError:
            pass


if __name__ == "__main__":
    if len(sys.argv) == 3 and sys.argv[1] == "--zygote":
        _r, _w = os.dup(0), os.dup(1)
        _dn = os.open(os.devnull, os.O_RDWR)
        for _fd in (0, 1, 2):
            os.dup2(_dn, _fd)
        sys.path.insert(0, os.path.dirname(os.path.abspath(__file__)))
        _zygote_main(sys.argv[2], _r, _w, other=True)
