"""Simulated clock and environment sensing.

The library has no timers, sleeps or deadlines today, and reads no environment variable.  Both facts are
*measured* here instead of assumed: every clock the interpreter offers to Python code goes through a
simulated clock the trace owns (seeded jumps between operations: milliseconds, minutes, days, a step
backwards of the wall clock), and every read of os.environ made on behalf of library code is recorded.
A change that makes a result depend on the time of day, on how long ago something was cached, or on a
variable of the process environment then shows as an ordinary difference with the pristine reference
(which runs on the real clock / under the flipped variable).

Probes (evidence): clock reads by library frames, environment keys read by library frames."""
import datetime as _dt
import os
import sys
import time as _time

REAL = {n: getattr(_time, n) for n in ("time", "time_ns", "monotonic", "monotonic_ns", "perf_counter", "perf_counter_ns", "sleep")}
_REAL_DATETIME = _dt.datetime
_REAL_DATE = _dt.date

CLOCK = None


def _from_library(prefix, depth=6):
    f = sys._getframe(2)
    n = 0
    while f is not None and n < depth:
        if f.f_code.co_filename.startswith(prefix):
            return True
        f = f.f_back
        n += 1
    return False


class SimClock:
    """wall and monotonic time owned by the simulator; a read advances both by 1 microsecond (two reads never tie)."""

    def __init__(self, prefix, wall=2_000_000_000.0, mono=50_000.0):
        self.prefix = prefix
        self.wall = float(wall)
        self.mono = float(mono)
        self.reads = 0
        self.lib_reads = 0
        self.jumps = 0
        self.jumped_s = 0.0
        self.slept = 0.0

    def _read(self):
        self.reads += 1
        if _from_library(self.prefix):
            self.lib_reads += 1
        self.wall += 1e-6
        self.mono += 1e-6

    def jump(self, wall_delta, mono_delta=None):
        """mono_delta defaults to max(wall_delta, 0): the wall clock may step backwards, the monotonic one never does."""
        self.jumps += 1
        self.jumped_s += abs(wall_delta)
        self.wall += wall_delta
        self.mono += max(wall_delta, 0.0) if mono_delta is None else max(mono_delta, 0.0)

    def install(self):
        global CLOCK
        CLOCK = self
        c = self

        def time():
            c._read()
            return c.wall

        def time_ns():
            c._read()
            return int(c.wall * 1e9)

        def monotonic():
            c._read()
            return c.mono

        def monotonic_ns():
            c._read()
            return int(c.mono * 1e9)

        def sleep(s):
            # nothing really sleeps: the clock jumps (a minute-long back-off costs microseconds)
            c._read()
            c.slept += float(s)
            c.wall += float(s)
            c.mono += float(s)

        _time.time, _time.time_ns = time, time_ns
        _time.monotonic, _time.monotonic_ns = monotonic, monotonic_ns
        _time.perf_counter, _time.perf_counter_ns = monotonic, monotonic_ns
        _time.sleep = sleep
        return self


def uninstall():
    global CLOCK
    CLOCK = None
    for n, f in REAL.items():
        setattr(_time, n, f)


class SimDateTime(_REAL_DATETIME):
    """datetime.datetime whose now()/utcnow()/today() read time.time() (and therefore the simulated clock when one is
    installed); instances are ordinary datetimes."""

    @classmethod
    def now(cls, tz=None):
        return cls.fromtimestamp(_time.time(), tz)

    @classmethod
    def utcnow(cls):
        return cls.fromtimestamp(_time.time(), _dt.timezone.utc).replace(tzinfo=None)

    @classmethod
    def today(cls):
        return cls.fromtimestamp(_time.time())


class SimDate(_REAL_DATE):
    @classmethod
    def today(cls):
        return cls.fromtimestamp(_time.time())


def install_datetime():
    """Before the library is imported (a `from datetime import datetime` at import time must bind the simulated class)."""
    _dt.datetime = SimDateTime
    _dt.date = SimDate


# ---------------------------------------------------------------------------------------------------------------
# jumps the generator draws from (seconds): nothing, a tick, past a short TTL, past an hour / a day / a month, and a
# wall-clock step backwards (NTP correction, DST change) during which the monotonic clock keeps going forward
JUMPS = (0.0, 0.0, 0.003, 1.5, 61.0, 301.0, 3601.0, 86401.0, 2_700_000.0, -3600.0, -86400.0)


def draw_jump(rnd):
    return rnd.choice(JUMPS)


# ---------------------------------------------------------------------------------------------------------------
class EnvSense:
    """Records which keys of os.environ are read while a library frame is within `depth` frames of the read."""

    def __init__(self, prefix):
        self.prefix = prefix
        self.keys = []
        self._orig = None

    def install(self):
        cls = type(os.environ)
        self._orig = cls.__getitem__
        sense = self

        def __getitem__(env, key, _orig=self._orig):
            try:
                if isinstance(key, str) and key not in sense.keys and _from_library(sense.prefix, depth=8):
                    sense.keys.append(key)
            except Exception:  # noqa
                pass
            return _orig(env, key)

        cls.__getitem__ = __getitem__
        return self

    def take(self):
        k, self.keys = self.keys, []
        return sorted(k)


def flipped(value):
    """Another value for an environment variable: unset / falsy -> "1"; anything else -> "0"."""
    return "1" if value in (None, "", "0", "false", "False", "no") else "0"
